------------------------------- MODULE C03_Share -------------------------------
(* S/I-specification for C03 (object sharing): a heap of TERM NODES with sharing, the hash *)
(* memo of kernel/term.py (Term.__hash__ stores _hash_val) and the in-place type            *)
(* instantiation Term.subst_type_inplace.                                                   *)
(*   node : sequence of node objects  [k, nm, T, f, a]  (leaf: kind/name nm, annotation T;   *)
(*          comb: children f, a = indices of EARLIER objects -- Build creates sharing)       *)
(*   memo : per object, the memoised hash token = the structural value the hash was          *)
(*          computed from (NoMemo if none); computing a hash uses the memos of the children  *)
(*   Mode = "ref"   reference: every object reachable from the root is instantiated exactly  *)
(*                  once; the memo of EVERY object from which an instantiated object is       *)
(*                  reachable is invalidated                                                  *)
(*          "coded" as coded: the walk mutates at every VISIT (a node shared at n places of  *)
(*                  the root is instantiated n times); only memos of visited nodes deleted    *)
(*          "once"  each distinct object once (visited set), memos as coded                  *)
(* Invariants: InstOnce (after InplaceTyInst(r, ti) every object encodes subst_type applied   *)
(* ONCE to what it encoded before), HashFresh (every memoised token of every live object is   *)
(* its structural value now: equal terms have equal hashes), WellTypedInv.                    *)
(* TLC: "ref" satisfies all; "coded" violates InstOnce/WellTypedInv; "once" violates          *)
(* HashFresh only.  With Emit = TRUE the explored histories are written as vectors.           *)
EXTENDS HolTerms, Json, IOUtils, SequencesExt
CONSTANTS MaxObj, MaxHash, MaxInplace, NLeaves, Mode, Emit
VARIABLES node, memo, hist, last, nh, ni
vars == <<node, memo, hist, last, nh, ni>>
view == <<node, memo, last, nh, ni>>

SA == <<"stv","a">>   SB == <<"stv","b">>
ListT(T) == <<"tc","list",<<T>>>>
NatT == <<"tc","nat",<<>>>>
Leaves == << [nm |-> <<"var","x">>, T |-> SA],
             [nm |-> <<"const","f">>, T |-> FunT(SA, BoolT)],
             [nm |-> <<"const","equals">>, T |-> FunT(SA, FunT(SA, BoolT))],
             [nm |-> <<"const","neg">>, T |-> FunT(BoolT, BoolT)] >>
\* non-idempotent (a := a list, a := a => a), a swap of two type variables, and an idempotent one
TyInsts == { << <<"a", ListT(SA)>> >>, << <<"a", FunT(SA, SA)>> >>, << <<"a", SB>>, <<"b", SA>> >>, << <<"a", NatT>> >> }
NoMemo == <<"none">>
NoNm == <<"", "">>
Objs == 1..Len(node)

RECURSIVE Val(_,_), Reach(_,_), Paths(_,_,_), Tok(_,_,_), Iter(_,_,_)
Val(nd, o) == IF nd[o].k = "leaf" THEN <<nd[o].nm[1], nd[o].nm[2], nd[o].T>>
              ELSE <<"comb", Val(nd, nd[o].f), Val(nd, nd[o].a)>>
Reach(nd, o) == IF nd[o].k = "leaf" THEN {o} ELSE {o} \cup Reach(nd, nd[o].f) \cup Reach(nd, nd[o].a)
\* number of visits of object o by the recursive walk from r (= number of paths)
Paths(nd, r, o) == IF r = o THEN 1 ELSE IF nd[r].k = "leaf" THEN 0 ELSE Paths(nd, nd[r].f, o) + Paths(nd, nd[r].a, o)
\* the value a hash computed now would be computed from (memos of sub-objects are used)
Tok(nd, mm, o) == IF mm[o] # NoMemo THEN mm[o]
                  ELSE IF nd[o].k = "leaf" THEN Val(nd, o)
                  ELSE <<"comb", Tok(nd, mm, nd[o].f), Tok(nd, mm, nd[o].a)>>
Iter(T, ti, n) == IF n = 0 THEN T ELSE Iter(TSubst(T, ti), ti, n - 1)

Act(act, nm, T, f, a, o, ti) == [act |-> act, nm |-> nm, T |-> T, f |-> f, a |-> a, o |-> o, ti |-> ti]
NoLast == [r |-> 0, ti |-> <<>>, pre |-> <<>>]
Init == node = <<>> /\ memo = <<>> /\ hist = <<>> /\ last = NoLast /\ nh = 0 /\ ni = 0 /\ (Emit => TLCSet(10, <<>>))

\* canonical order of a history when vectors are emitted: builds, then hashes (increasing objects), then ONE in-place
\* instantiation -- before the first instantiation nothing else distinguishes two interleavings
LastHashed == LET H == { i \in 1..Len(hist) : hist[i].act = "hash" } IN IF H = {} THEN 0 ELSE hist[CHOOSE i \in H : \A j \in H : j <= i].o
LeafIdx(o) == CHOOSE j \in 1..Len(Leaves) : Leaves[j].nm = node[o].nm
BuildLeaf(i) == /\ Len(node) < MaxObj /\ ni = 0 /\ (Emit => nh = 0)
                /\ Emit => \A o \in Objs : node[o].k = "leaf" /\ LeafIdx(o) <= i     \* canonical: leaves first, by template
                /\ node' = Append(node, [k |-> "leaf", nm |-> Leaves[i].nm, T |-> Leaves[i].T, f |-> 0, a |-> 0])
                /\ memo' = Append(memo, NoMemo)
                /\ hist' = Append(hist, Act("leaf", Leaves[i].nm, Leaves[i].T, 0, 0, 0, <<>>))
                /\ UNCHANGED <<last, nh, ni>>
BuildComb(f, a) == /\ Len(node) < MaxObj /\ ni = 0 /\ (Emit => nh = 0)
                   /\ WellTyped(<<"comb", Val(node, f), Val(node, a)>>)
                   /\ node' = Append(node, [k |-> "comb", nm |-> NoNm, T |-> BoolT, f |-> f, a |-> a])
                   /\ memo' = Append(memo, NoMemo)
                   /\ hist' = Append(hist, Act("comb", NoNm, BoolT, f, a, 0, <<>>))
                   /\ UNCHANGED <<last, nh, ni>>
\* hash(o): memoises o and every sub-object that has no memo yet
Hash(o) == /\ nh < MaxHash /\ memo[o] = NoMemo /\ (Emit => ni = 0 /\ o > LastHashed)
           /\ memo' = [x \in Objs |-> IF x \in Reach(node, o) THEN Tok(node, memo, x) ELSE memo[x]]
           /\ hist' = Append(hist, Act("hash", NoNm, BoolT, 0, 0, o, <<>>))
           /\ nh' = nh + 1 /\ UNCHANGED <<node, last, ni>>
Times(r, o) == IF Mode = "coded" THEN Paths(node, r, o) ELSE IF o \in Reach(node, r) THEN 1 ELSE 0
Invalidated(r) == IF Mode = "ref" THEN { o \in Objs : Reach(node, o) \cap Reach(node, r) # {} } ELSE Reach(node, r)
\* objects OUTSIDE the instantiated term that contain a memoised object outside it sharing a leaf that the instantiation changes
Foreign(r, ti) == { o \in Objs \ Reach(node, r) : \E p \in Reach(node, o) \ Reach(node, r) :
                      /\ memo[p] # NoMemo
                      /\ \E x \in Reach(node, p) \cap Reach(node, r) : node[x].k = "leaf" /\ TSubst(node[x].T, ti) # node[x].T }
\* no garbage: every object is a sub-object of some object that shares with the instantiated term
Connected(r) == \A o \in Objs : \E p \in Objs : o \in Reach(node, p) /\ Reach(node, p) \cap Reach(node, r) # {}
InplaceTyInst(r, ti) ==
  /\ ni < MaxInplace
  /\ node' = [o \in Objs |-> IF node[o].k = "leaf" THEN [node[o] EXCEPT !.T = Iter(@, ti, Times(r, o))] ELSE node[o]]
  /\ memo' = [o \in Objs |-> IF o \in Invalidated(r) THEN NoMemo ELSE memo[o]]
  /\ hist' = Append(hist, Act("inplace", NoNm, BoolT, 0, 0, r, ti))
  /\ last' = [r |-> r, ti |-> ti, pre |-> node]
  /\ ni' = ni + 1 /\ UNCHANGED nh
  /\ (Emit /\ Connected(r)) => TLCSet(10, Append(TLCGet(10), [hist |-> hist', nobj |-> Len(node), foreign |-> SetToSeq(Foreign(r, ti))]))
Next == \/ \E i \in 1..NLeaves : BuildLeaf(i)
        \/ \E f \in Objs, a \in Objs : BuildComb(f, a)
        \/ \E o \in Objs : Hash(o)
        \/ \E r \in Objs, ti \in TyInsts : InplaceTyInst(r, ti)
Spec == Init /\ [][Next]_vars

\* ------------------------------------------------------------------ the property
\* what every object must encode after InplaceTyInst(r, ti): subst_type applied once to the sub-objects of r
RECURSIVE RefVal(_,_,_,_)
RefVal(nd, r, ti, o) == IF o \in Reach(nd, r) THEN STypeTerm(Val(nd, o), ti)
                        ELSE IF nd[o].k = "leaf" THEN Val(nd, o)
                        ELSE <<"comb", RefVal(nd, r, ti, nd[o].f), RefVal(nd, r, ti, nd[o].a)>>
InstOnce == last.r # 0 => \A o \in 1..Len(last.pre) : Val(node, o) = RefVal(last.pre, last.r, last.ti, o)
HashFresh == \A o \in Objs : memo[o] # NoMemo => memo[o] = Val(node, o)
\* well-typedness of the instantiated term and of its sub-terms is preserved (a term that merely SHARES a sub-object with it
\* is mutated as a side effect of the in-place API and may become ill-typed in every mode: not part of the property)
WellTypedInv == last.r # 0 => \A o \in Reach(last.pre, last.r) : WellTyped(Val(last.pre, o)) => WellTyped(Val(node, o))
EmitPost == ndJsonSerialize(IOEnv.VECTOR_FILE, TLCGet(10))
=============================================================================
