SPECIFICATION Spec
CONSTANTS Consts = {"a","b","c","d"}
 MaxOps = 2
INVARIANT ClosureIsCongruence
INVARIANT ClosureIsLeast
INVARIANT FastAgrees
INVARIANT ExplainExists
INVARIANT ExplainSound
PROPERTY Monotone
CHECK_DEADLOCK FALSE
