---------------------------- MODULE C17_CongCImpl ----------------------------
(* I-specification for C17: prover/congc.py's CongClosure as a transition system.           *)
(*   variables : rep, classList, useList, lookup, forest, pending  (C17_CongCAlgo's record)  *)
(*               hist  -- the sequence of merge calls so far (history; merged = its range)   *)
(*               q     -- the query being answered (test / explain), NoQ between calls       *)
(*   actions   : Merge(e)      merge(...) up to the call of _propagate                      *)
(*               PropagateOne  one iteration of the while loop of _propagate                *)
(*               Test(s,t), Explain(s,t)  (only if Queries) answer a query; Return ends it   *)
(*   refinement: whenever pending is empty, test = Closure(merged) (TestCorrect) and every   *)
(*               explanation Explains (ExplainCorrect); structural invariants of the record. *)
(* Each completed merge sequence is printed as a vector ("VEC", hist) and replayed on the    *)
(* real CongClosure / CongClosureHOL by harness/drivers/c17.py.                             *)
EXTENDS C17_Closure, C17_CongCAlgo, CSV, IOUtils, SequencesExt
CONSTANTS Consts, MaxOps, Queries, EmitAll, ChainMode
VARIABLES rep, classList, useList, lookup, forest, pending, hist, q
vars == <<rep, classList, useList, lookup, forest, pending, hist, q>>
Pairs == Consts \X Consts
Symm == Permutations(Consts)
St == [rep |-> rep, cls |-> classList, use |-> useList, lk |-> lookup, pf |-> forest, pend |-> pending]
Becomes(s) == /\ rep' = s.rep /\ classList' = s.cls /\ useList' = s.use /\ lookup' = s.lk
              /\ forest' = s.pf /\ pending' = s.pend
merged == { hist[i] : i \in 1..Len(hist) }
NoQ == <<"none", "", "", FALSE, {}>>
\* a vector is emitted when a merge call returns (pending empty again)
Emit(h, pend) == IF pend = <<>> /\ (EmitAll \/ Len(h) = MaxOps) THEN CSVWrite("%1$s", <<h>>, IOEnv.VECTOR_FILE) ELSE TRUE

Init == /\ rep = StInit(Consts).rep /\ classList = StInit(Consts).cls /\ useList = StInit(Consts).use
         /\ lookup = StInit(Consts).lk /\ forest = StInit(Consts).pf /\ pending = <<>> /\ hist = <<>> /\ q = NoQ
Merge(e) == /\ pending = <<>> /\ q = NoQ /\ Len(hist) < MaxOps
            /\ hist' = Append(hist, e) /\ Becomes(MergeStart(St, e)) /\ UNCHANGED q
            /\ Emit(hist', pending')
PropagateOne == /\ pending # <<>>
                /\ Becomes(PropStep(St)) /\ UNCHANGED <<hist, q>>
                /\ Emit(hist', pending')
Test(s, t) == /\ Queries /\ pending = <<>> /\ q = NoQ /\ hist # <<>>
              /\ q' = <<"test", s, t, TestAns(St, s, t), {}>>
              /\ UNCHANGED <<rep, classList, useList, lookup, forest, pending, hist>>
Explain(s, t) == /\ Queries /\ pending = <<>> /\ q = NoQ /\ hist # <<>> /\ TestAns(St, s, t)
                 /\ q' = <<"explain", s, t, TRUE, SafeExplainEqs(forest, s, t)>>
                 /\ UNCHANGED <<rep, classList, useList, lookup, forest, pending, hist>>
Return == q # NoQ /\ q' = NoQ /\ UNCHANGED <<rep, classList, useList, lookup, forest, pending, hist>>
\* (two disjuncts: TLC's simulator first picks a disjunct, so long random sequences mix both kinds of equation)
\* ChainMode: the merged equations are the edges of ONE path through all the constants, each edge once, in every order and
\* orientation (end-to-end, middle-out, ...): the family that builds deep proof-forest paths on both sides of a merge
\* (a class of k constants explained by a path needs k constants; three or four never put a merged endpoint two edges below its root)
ChainSeq == SetToSeq(Consts)
ChainEdges == { <<"c", ChainSeq[i], ChainSeq[i+1]>> : i \in 1..(Len(ChainSeq) - 1) } \cup { <<"c", ChainSeq[i+1], ChainSeq[i]>> : i \in 1..(Len(ChainSeq) - 1) }
CPool == IF ChainMode THEN { e \in ChainEdges : \A i \in 1..Len(hist) : hist[i] # e /\ hist[i] # <<"c", e[3], e[2]>> } ELSE CEqs(Consts)
FPool == IF ChainMode THEN {} ELSE FEqs(Consts)
Next == \/ \E e \in CPool : Merge(e)
        \/ \E e \in FPool : Merge(e)
        \/ PropagateOne
        \/ \E p \in Pairs : Test(p[1], p[2]) \/ Explain(p[1], p[2])
        \/ Return
Spec == Init /\ [][Next]_vars
\* state constraint of the small 4-constant configuration: constant equations only (enough to make classes of size two meet,
\* which is what exercises the path reversal of the proof forest; three constants never do)
CEqOnly == \A i \in 1..Len(hist) : hist[i][1] = "c"

\* ---------------------------------------------------------------- refinement of S
\* (beyond 4 constants the class-map formulation, which C17_CongC checks equal to the least fixpoint, keeps simulation fast)
Small == Cardinality(Consts) <= 4
Cl(E) == IF Small THEN Closure(Consts, E) ELSE ClosureFast(Consts, E)
Expl(X, s, t) == IF Small THEN Explains(Consts, X, merged, s, t) ELSE ExplainsFast(Consts, X, merged, s, t)
Quiescent == pending = <<>>
TestCorrect == Quiescent => LET cl == Cl(merged) IN \A p \in Pairs : TestAns(St, p[1], p[2]) <=> (p \in cl)
ExplainCorrect == Quiescent => \A p \in Pairs : (p[1] # p[2] /\ TestAns(St, p[1], p[2])) =>
                                  Expl(SafeExplainEqs(forest, p[1], p[2]), p[1], p[2])
\* the answers given to queries (when Queries): what a caller observes between merges
QueryCorrect == /\ q[1] = "test" => (q[4] <=> <<q[2], q[3]>> \in Cl(merged))
                /\ q[1] = "explain" => Expl(q[5], q[2], q[3])
\* soundness holds even in the middle of propagation; completeness only when quiescent
AlwaysSound == ~Quiescent => LET cl == Cl(merged) IN \A p \in Pairs : TestAns(St, p[1], p[2]) => p \in cl
\* ---------------------------------------------------------------- structure of the record (as the code relies on it)
RepIdempotent == \A c \in Consts : rep[rep[c]] = rep[c]
ClassListsMatch == \A r \in Consts : { classList[r][i] : i \in 1..Len(classList[r]) } = { c \in Consts : rep[c] = r }
ForestMatchesRep == Acyclic(forest) /\ \A p \in Pairs : SameTree(forest, p[1], p[2]) <=> rep[p[1]] = rep[p[2]]
ForestLabelsMerged == \A c \in Consts : forest[c] # NoEdge => \A x \in LabEqs(forest[c][2]) : x \in merged
\* lookup invariant of Nieuwenhuis-Oliveras: every merged f-equation is represented, up to congruence, in lookup
LookupComplete == Quiescent => \A e \in FOf(merged) :
                     LET k == <<rep[e[2]], rep[e[3]]>> IN lookup[k] # NoEq /\ rep[lookup[k][4]] = rep[e[4]]
=============================================================================
