SPECIFICATION Spec
CONSTANTS MaxOps = 3
 MaxLines = 4
INVARIANT Contiguous
INVARIANT CitationsTrackItems
INVARIANT NoDanglingUnlessRemoved
INVARIANT ReplacedCitationsFollow
CHECK_DEADLOCK FALSE
