SPECIFICATION Spec
CONSTANTS MaxOps = 3
 MaxLines = 4
INVARIANT Contiguous
INVARIANT CitationsTrackItems
INVARIANT NoDanglingUnlessRemoved
CHECK_DEADLOCK FALSE
