------------------------------- MODULE C19_Rules -------------------------------
(* Reference versions of the integration calculator's rules on the polynomial fragment, shared by the  *)
(* S-specifications C19_Calc (calculation machine) and C19_Ctx (context machine): expression            *)
(* constructors, symbolic coefficient arithmetic (ToPoly / FromPoly over lib/Rat), and Ref(rule, pe, e). *)
EXTENDS C19_Eval, Json, IOUtils

X == <<"var", "x">>
K(n) == <<"const", n, 1>>
Q(q) == IF q = ROvf THEN <<"bigconst", "", "">> ELSE <<"const", q[1], q[2]>>
Add(a, b) == <<"op", "+", a, b>>
Sub(a, b) == <<"op", "-", a, b>>
Mul(a, b) == <<"op", "*", a, b>>
Div(a, b) == <<"op", "/", a, b>>
Pow(a, n) == <<"op", "^", a, K(n)>>
Neg(a) == <<"neg", a>>
IntE(x, lo, hi, b) == <<"int", x, lo, hi, b>>
EvalAt(x, lo, hi, b) == <<"evalat", x, lo, hi, b>>
KV == <<"var", "k">>
SignFactor == <<"op", "^", K(-1), Mul(K(2), KV)>>             \* (-1) ^ (2 * k), the factor SummationSimplify removes

(* ---------------- coefficient sequences over Rat (Trim, PAdd, PMul, PPow ... are in C19_Eval) ---------------- *)
PDeriv(p) == IF Len(p) <= 1 THEN <<>> ELSE Trim([i \in 1..(Len(p) - 1) |-> QMul(RInt(i), p[i + 1])] \o <<>>)
PAnti(p) == IF Len(p) = 0 THEN <<>> ELSE Trim([i \in 1..(Len(p) + 1) |-> IF i = 1 THEN Z ELSE QDiv(p[i - 1], RInt(i - 1))] \o <<>>)
\* p(a * u + b)
RECURSIVE PCompFrom(_, _, _)
PCompFrom(p, l, i) == IF i > Len(p) THEN <<>> ELSE PAdd(<<p[i]>>, PMul(l, PCompFrom(p, l, i + 1)))
PComp(p, a, b) == Trim(PCompFrom(p, Trim(<<b, a>>), 1))
PEval(p, t) == PolyAt(p, t)

\* expression of the univariate fragment -> coefficients ; <<"err">> flags a non-polynomial
PErr == << <<7, 0>> >>
RECURSIVE ToPoly(_, _)
ToPoly(e, x) ==
  CASE e[1] = "var" -> IF e[2] = x THEN <<Z, One>> ELSE PErr
    [] e[1] = "const" -> Trim(<<RNorm(e[2], e[3])>>)
    [] e[1] = "neg" -> LET a == ToPoly(e[2], x) IN IF a = PErr THEN PErr ELSE PNeg(a)
    [] e[1] = "op" ->
         LET a == ToPoly(e[3], x) IN
         IF a = PErr THEN PErr
         ELSE IF e[2] = "^" THEN (IF e[4][1] = "const" /\ e[4][3] = 1 /\ e[4][2] >= 0 THEN PPow(a, e[4][2]) ELSE PErr)
         ELSE LET b == ToPoly(e[4], x) IN
              IF b = PErr THEN PErr
              ELSE CASE e[2] = "+" -> PAdd(a, b) [] e[2] = "-" -> PSub(a, b) [] e[2] = "*" -> PMul(a, b)
                     [] e[2] = "/" -> IF Len(b) = 1 THEN PScale(QDiv(One, b[1]), a) ELSE PErr
                     [] OTHER -> PErr
    [] OTHER -> PErr

\* canonical expression of a coefficient sequence: c_n * x^n + ... + c_1 * x + c_0 (zero terms omitted)
Mono(c, k, x) == IF k = 0 THEN Q(c)
                 ELSE LET xp == IF k = 1 THEN <<"var", x>> ELSE Pow(<<"var", x>>, k) IN IF c = One THEN xp ELSE Mul(Q(c), xp)
RECURSIVE FromFrom(_, _, _)
FromFrom(p, i, x) ==          \* terms of index <= i, highest first
  IF i = 0 THEN <<"none">>
  ELSE LET rest == FromFrom(p, i - 1, x) IN
       IF p[i] = Z THEN rest ELSE IF rest = <<"none">> THEN Mono(p[i], i - 1, x) ELSE Add(Mono(p[i], i - 1, x), rest)
FromPoly(p, x) == IF Len(p) = 0 THEN K(0) ELSE FromFrom(p, Len(p), x)

(* ---------------------------------- reference rules ---------------------------------- *)
IsInt(e) == e[1] = "int"
IsConstE(e) == e[1] = "const"
\* INT (a + b) = INT a + INT b ; INT (c * a) = c * INT a ; INT (-a) = - INT a
RECURSIVE Lin(_)
Lin(e) ==
  IF ~IsInt(e) THEN e ELSE
  LET x == e[2]  b == e[5]  I(t) == <<"int", x, e[3], e[4], t>> IN
  CASE b[1] = "op" /\ b[2] = "+" -> Add(Lin(I(b[3])), Lin(I(b[4])))
    [] b[1] = "op" /\ b[2] = "-" -> Sub(Lin(I(b[3])), Lin(I(b[4])))
    [] b[1] = "neg" -> Neg(Lin(I(b[2])))
    [] b[1] = "op" /\ b[2] = "*" /\ IsConstE(b[3]) -> Mul(b[3], Lin(I(b[4])))
    [] OTHER -> e
\* apply f to every definite integral inside arithmetic
RECURSIVE MapInt(_, _)
RefOne(rule, pe, e) ==             \* the reference rule on ONE definite integral / derivative / sum / evalat
  CASE rule = "Linearity" -> Lin(e)
    [] rule = "Antiderivative" ->          \* power rule on polynomials: INT x:[a,b]. p = [P]_x=a,b
         IF IsInt(e) THEN EvalAt(e[2], e[3], e[4], FromPoly(PAnti(ToPoly(e[5], e[2])), e[2])) ELSE e
    [] rule = "EvalAt" ->                  \* [F]_x=a,b = F(b) - F(a)
         IF e[1] = "evalat"
         THEN LET p == ToPoly(e[5], e[2])  lo == Val(e[3], <<>>)  hi == Val(e[4], <<>>) IN
              IF p = PErr \/ lo.st # 0 \/ hi.st # 0 THEN e ELSE Q(QSub(PEval(p, hi.v), PEval(p, lo.v)))
         ELSE e
    [] rule = "ExpandPolynomial" -> IF IsInt(e) THEN IntE(e[2], e[3], e[4], FromPoly(ToPoly(e[5], e[2]), e[2])) ELSE e
    [] rule = "Simplify" ->
         IF IsInt(e) THEN IntE(e[2], e[3], e[4], FromPoly(ToPoly(e[5], e[2]), e[2]))
         ELSE IF e[1] \in {"deriv", "sum", "evalat", "lim", "inf"} THEN e ELSE FromPoly(ToPoly(e, "x"), "x")
    [] rule = "Substitution" ->            \* u = a * x + b :  INT x:[l,h]. f = INT u:[a l + b, a h + b]. f((u - b) / a) / a
         IF IsInt(e)
         THEN LET a == Val(pe[1], <<>>).v  b == Val(pe[2], <<>>).v  ia == QDiv(One, a)
                  lo == Val(e[3], <<>>).v  hi == Val(e[4], <<>>).v
                  g == PScale(ia, PComp(ToPoly(e[5], e[2]), ia, QNeg(QMul(b, ia)))) IN
              IF Len(g) < 0 THEN e ELSE IntE("u", Q(QAdd(QMul(a, lo), b)), Q(QAdd(QMul(a, hi), b)), FromPoly(g, "u"))
         ELSE e
    [] rule = "IntegrationByParts" ->      \* u dv = integrand :  INT u dv = [u v] - INT v du
         IF IsInt(e)
         THEN LET u == ToPoly(pe[1], e[2])  v == ToPoly(pe[2], e[2]) IN
              IF u = PErr \/ v = PErr THEN e ELSE
              Sub(EvalAt(e[2], e[3], e[4], FromPoly(PMul(u, v), e[2])), IntE(e[2], e[3], e[4], FromPoly(PMul(v, PDeriv(u)), e[2])))
         ELSE e
    [] rule = "SplitRegion" -> IF IsInt(e) THEN Add(IntE(e[2], e[3], pe[1], e[5]), IntE(e[2], pe[1], e[4], e[5])) ELSE e
    [] rule = "DerivativeSimplify" -> IF e[1] = "deriv" THEN FromPoly(PDeriv(ToPoly(e[3], e[2])), e[2]) ELSE e
    [] rule = "SummationSimplify" ->       \* (-1) ^ (2 * k) = 1 for integer k
         IF e[1] = "sum" /\ e[5][1] = "op" /\ e[5][2] = "*" /\ e[5][3] = SignFactor THEN <<"sum", e[2], e[3], e[4], Mul(K(1), e[5][4])>> ELSE e
    [] rule \in {"ReduceLimit", "LimitSimplify"} ->      \* limit of a rational function at infinity: degrees and leading coefficients
         IF e[1] = "lim"
         THEN LET t == LimVal(e, <<>>) IN IF t.st # 0 THEN e ELSE IF t.inf # 0 THEN <<"inf", t.inf>> ELSE Q(t.v)
         ELSE e
    [] rule = "SumUnfold" ->               \* a finite sum is the sum of its terms
         IF e[1] = "sum" /\ ToPoly(e[5], e[2]) # PErr THEN LET lo == Val(e[3], <<>>).v[1]  hi == Val(e[4], <<>>).v[1]  p == ToPoly(e[5], e[2]) IN
                               IF Len(p) < 0 THEN e ELSE Q(HornerP([i \in 1..(hi - lo + 1) |-> PEval(p, RInt(lo + i - 1))] \o <<>>, One, 1))
         ELSE e
    [] OTHER -> e
MapInt(rule_pe, e) ==
  CASE e[1] \in {"int", "deriv", "sum", "evalat", "lim"} -> RefOne(rule_pe[1], rule_pe[2], e)
    [] e[1] = "op" -> <<"op", e[2], MapInt(rule_pe, e[3]), MapInt(rule_pe, e[4])>>
    [] e[1] = "neg" -> <<"neg", MapInt(rule_pe, e[2])>>
    [] OTHER -> e
\* rules with parameters act on the FIRST definite integral of the expression only (as rules.py does: separate_integral()[0])
RECURSIVE MapFirst(_, _)
MapFirst(rule_pe, e) ==          \* [done, e]   (a record: see the note in C19_Eval)
  CASE e[1] = "int" -> [done |-> TRUE, e |-> RefOne(rule_pe[1], rule_pe[2], e)]
    [] e[1] = "op" -> LET a == MapFirst(rule_pe, e[3]) IN
                      IF a.done THEN [done |-> TRUE, e |-> <<"op", e[2], a.e, e[4]>>]
                      ELSE LET b == MapFirst(rule_pe, e[4]) IN [done |-> b.done, e |-> <<"op", e[2], e[3], b.e>>]
    [] e[1] = "neg" -> LET a == MapFirst(rule_pe, e[2]) IN [done |-> a.done, e |-> <<"neg", a.e>>]
    [] OTHER -> [done |-> FALSE, e |-> e]
Parametric == {"Substitution", "IntegrationByParts", "SplitRegion"}
Ref(rule, pe, e) == IF rule \in Parametric THEN MapFirst(<<rule, pe>>, e).e
                    ELSE IF rule = "Simplify" /\ e[1] \notin {"int", "op", "neg"} THEN RefOne(rule, pe, e)
                    ELSE MapInt(<<rule, pe>>, e)

=============================================================================
