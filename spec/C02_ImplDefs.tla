----------------------------- MODULE C02_ImplDefs -----------------------------
(* kernel/theory.py  Theory._check_proof_item / check_proof / checked_extend  AS CODED,       *)
(* as a functional program over a proof object (C02_Ref item records).                        *)
(*                                                                                           *)
(*   - citations are admitted by ItemID.can_depend_on, which looks at IDENTIFIERS,            *)
(*   - their sequents are fetched by Proof.find_item, which walks POSITIONS (Python list      *)
(*     indexing: a negative index counts from the end),                                       *)
(*   - the sequent of an item is assigned IN PLACE (seq.th := res_th) when none is stated,    *)
(*     so `ths` (position -> current th) is the mutable state threaded through the check,      *)
(*   - an empty line returns at once whatever it states; `sorry` is refused under no_gaps     *)
(*     and reported otherwise; compute_only skips items that state a sequent.                 *)
(*                                                                                           *)
(* fx selects the variant of the algorithm (derived from the code under test by innocuous    *)
(* probes, see harness/drivers/c02.py `features`):                                           *)
(*   idpos  : an item whose identifier does not lead to its own position is refused          *)
(*   negidx : find_item refuses negative indices                                             *)
(*   empty  : an empty line that states a sequent is refused                                 *)
(*   extng  : checked_extend checks the proof with no_gaps                                   *)
(*   extcmp : checked_extend compares the proof's conclusion with the stated theorem         *)
(*   argsig : a primitive rule is handed seq.args only if its signature takes an argument,   *)
(*            and an argument of another kind is refused (as coded before: args, when not    *)
(*            None, is simply put in front of the cited sequents, so a made-up Thm object     *)
(*            serves as first premise of a rule that takes none)                             *)
(*   posocc : the identifier is compared with the position of EACH occurrence being checked  *)
(*            (as coded before: find_item(seq.id) IS seq, an object identity that an item     *)
(*            object placed at two positions satisfies at both)                              *)
(* All FALSE = the algorithm of the pinned commit.                                           *)
(* Objects: the item at a position with alias # <<>> is the same Python object as the item   *)
(* at position alias; sequents assigned in place live on the OBJECT (ths is keyed by it).     *)
EXTENDS C02_Ref

Unfixed == [idpos |-> FALSE, negidx |-> FALSE, empty |-> FALSE, extng |-> FALSE, extcmp |-> FALSE, argsig |-> FALSE, posocc |-> FALSE]
Repaired == [idpos |-> TRUE, negidx |-> TRUE, empty |-> TRUE, extng |-> TRUE, extcmp |-> TRUE, argsig |-> TRUE, posocc |-> TRUE]
\* the object sitting at a position
Obj(prf, pos) == LET a == ItemAt(prf, pos).alias IN IF a = <<>> THEN pos ELSE a
ObjAt(prf, q) == IF q = ErrPos THEN ErrPos ELSE Obj(prf, q)

\* ItemID.can_depend_on
CanDependOn(a, b) == LET n == Len(b) IN
  /\ n >= 1 /\ n <= Len(a)
  /\ SubSeq(b, 1, n - 1) = SubSeq(a, 1, n - 1)
  /\ b[n] < a[n]

ErrS == Sq({}, <<"err">>)
IsErr(s) == s.c = <<"err">>
St(ok, ths, gaps) == [ok |-> ok, ths |-> ths, gaps |-> gaps]
Bad(st) == St(FALSE, st.ths, st.gaps)

\* the conclusion part shared by all rules:  seq.th := res_th  or  res_th.can_prove(seq.th)
Conclude(st, pos, res) ==
  IF ~st.ok THEN st
  ELSE IF IsErr(res) \/ IsNone(res) THEN Bad(st)                      \* CheckProofException / AttributeError on None
  ELSE IF IsNone(st.ths[pos]) THEN St(TRUE, [st.ths EXCEPT ![pos] = res], st.gaps)
  ELSE IF CanProve(res, st.ths[pos]) THEN st ELSE Bad(st)

\* what rule_fun(...) receives as premises, as coded:  rule_fun(*prev_ths) if args is None else rule_fun(args, *prev_ths)
\* [ok, prems]; a kind that cannot stand where Python puts it ends in some exception = refusal
CallPrems(it, pths, fx) ==
  LET sig == Sig(it.rule) IN
  IF it.rule \in ArgIgnored \/ it.ak = sig THEN [ok |-> TRUE, prems |-> pths]
  ELSE IF ~fx.argsig /\ sig = "none" /\ it.ak = "thm" THEN [ok |-> TRUE, prems |-> <<it.at>> \o pths]
  \* Thm.subst_type(tyinst, th) never looks at tyinst when th has no type variable: any object will do, also a cited sequent
  ELSE IF ~fx.argsig /\ it.rule = "subst_type" /\ Len(pths) = (IF it.ak = "none" THEN 2 ELSE 1)
       THEN [ok |-> TRUE, prems |-> <<pths[Len(pths)]>>]
  ELSE [ok |-> FALSE, prems |-> pths]

RECURSIVE ImplSeq(_, _, _, _, _, _, _)
ImplItem(prf, it, pos, st, o, fx) ==
  LET me == Obj(prf, pos) IN
  IF ~st.ok THEN st
  ELSE IF it.rule = "" THEN (IF fx.empty /\ ~IsNone(st.ths[me]) THEN Bad(st) ELSE st)
  ELSE IF fx.posocc /\ it.id # pos THEN Bad(st)
  ELSE IF ~fx.posocc /\ fx.idpos /\ ObjAt(prf, FindPos(prf, it.id, ~fx.negidx)) # me THEN Bad(st)
  ELSE IF it.rule = "sorry" THEN
       IF IsNone(st.ths[me]) \/ o.nogaps THEN Bad(st) ELSE St(TRUE, st.ths, Append(st.gaps, st.ths[me]))
  ELSE IF o.co /\ ~IsNone(st.ths[me]) THEN
       (IF it.rule = "subproof" THEN ImplSeq(prf, it.sub, pos, 1, st, o, fx) ELSE st)
  ELSE IF it.rule = "theorem" THEN
       LET outs == IF it.ak = "name" THEN Apply("theorem", it.arg, <<>>) ELSE {} IN
       Conclude(st, me, IF outs = {} THEN ErrS ELSE CHOOSE x \in outs : TRUE)
  ELSE IF it.rule = "subproof" THEN
       IF Len(it.sub) = 0 THEN Bad(st)
       ELSE LET s1 == ImplSeq(prf, it.sub, pos, 1, st, o, fx) IN
            Conclude(s1, me, s1.ths[Obj(prf, Append(pos, Len(it.sub) - 1))])
  ELSE \* primitive derivation or macro: fetch the cited sequents
       LET n == Len(it.prevs)
           ps == [k \in 1..n |-> ObjAt(prf, FindPos(prf, it.prevs[k], ~fx.negidx))] IN
       IF \E k \in 1..n : ~CanDependOn(it.id, it.prevs[k]) \/ ps[k] = ErrPos THEN Bad(st)
       ELSE LET pths == [k \in 1..n |-> st.ths[ps[k]]] IN
            IF \E k \in 1..n : IsNone(pths[k]) THEN Bad(st)
            ELSE IF it.rule = "verif_gap1" THEN         \* level 1 > check_level 0: expanded; the expansion is `sorry |- arg`
                 IF n # 0 \/ o.nogaps \/ it.ak # "term" THEN Bad(st)
                 ELSE Conclude(St(TRUE, st.ths, Append(st.gaps, Sq({}, it.arg))), me, Sq({}, it.arg))
            ELSE LET cp == CallPrems(it, pths, fx) IN
                 IF ~cp.ok \/ it.rule \in Unmodelled THEN Bad(st)
                 ELSE LET outs == Apply(it.rule, it.arg, cp.prems) IN
                      Conclude(st, me, IF outs = {} THEN ErrS ELSE CHOOSE x \in outs : TRUE)
ImplSeq(prf, items, prefix, k, st, o, fx) ==
  IF k > Len(items) THEN st
  ELSE ImplSeq(prf, items, prefix, k + 1, ImplItem(prf, items[k], Append(prefix, k - 1), st, o, fx), o, fx)

Opts(nogaps, co) == [nogaps |-> nogaps, co |-> co]
\* check_proof: [acc, final (NoneS when the last item has no sequent), gaps]
ImplCheck(prf, o, fx) ==
  IF Len(prf) = 0 THEN [acc |-> FALSE, final |-> NoneS, gaps |-> <<>>]          \* prf.items[-1]: IndexError
  ELSE LET st == ImplSeq(prf, prf, <<>>, 1, St(TRUE, [p \in AllPos(prf) |-> ItemAt(prf, p).th], <<>>), o, fx) IN
       [acc |-> st.ok, final |-> IF st.ok THEN st.ths[Obj(prf, <<Len(prf) - 1>>)] ELSE NoneS, gaps |-> st.gaps]
\* checked_extend on Theorem(name, stated, prf): is the theorem installed?
ImplExtend(stated, prf, fx) ==
  LET r == ImplCheck(prf, Opts(fx.extng, FALSE), fx) IN
  r.acc /\ (fx.extcmp => (~IsNone(r.final) /\ CanProve(r.final, stated)))
=============================================================================
