--------------------------- MODULE C01_KernelTrace ---------------------------
(* T-specification for C01.  Events come from the real kernel (harness/drivers/c01.py):   *)
(*   [tid, route ("thm" | "chk" | "proof"), rule, arg [t, ty, sv], prems, outcome, result] *)
(* Clauses (evaluated on every accepted event):                                          *)
(*   WellTyped : hypotheses and conclusion are closed terms of type bool                  *)
(*   Valid     : the sequent holds in every finite standard model with |tyvar| <= 2       *)
(*   NotFalse  : it is not  |- !A. A                                                      *)
(* Divergence (informational): the code's outcome differs from the reference rule of      *)
(* lib/Kernel.tla on well-formed inputs.                                                  *)
EXTENDS Kernel, HolSem, TraceLib
ToSq(j) == [h |-> { j.h[i] : i \in 1..Len(j.h) }, c |-> j.c]
NoArg == <<"none">>
InputsOK(e) == /\ e.arg.t = NoArg \/ WellTyped(e.arg.t)
               /\ \A k \in 1..Len(e.arg.sv) : WellTyped(e.arg.sv[k][2])
               /\ \A i \in 1..Len(e.prems) : SeqWellTyped(ToSq(e.prems[i]))
Expected(e) ==
  LET P == [i \in 1..Len(e.prems) |-> ToSq(e.prems[i])] a == e.arg.t IN
  CASE e.rule = "assume" -> Assume(a)
    [] e.rule = "implies_intr" -> ImpliesIntr(a, P[1])
    [] e.rule = "implies_elim" -> ImpliesElim(P[1], P[2])
    [] e.rule = "reflexive" -> Reflexive(a)
    [] e.rule = "symmetric" -> Symmetric(P[1])
    [] e.rule = "transitive" -> Transitive(P[1], P[2])
    [] e.rule = "combination" -> Combination(P[1], P[2])
    [] e.rule = "equal_intr" -> EqualIntr(P[1], P[2])
    [] e.rule = "equal_elim" -> EqualElim(P[1], P[2])
    [] e.rule = "beta_conv" -> BetaConvR(a)
    [] e.rule = "abstraction" -> Abstraction(a, P[1])
    [] e.rule = "forall_intr" -> ForallIntr(a, P[1])
    [] e.rule = "forall_elim" -> ForallElim(a, P[1])
    [] e.rule = "substitution" -> Substitution([ty |-> e.arg.ty, sv |-> e.arg.sv], P[1])
    [] e.rule = "subst_type" -> SubstType(e.arg.ty, P[1])
    [] OTHER -> ErrS
RefOutcome(e) == LET x == Expected(e) IN IF IsErrS(x) THEN ErrS ELSE IF SeqWellTyped(x) THEN x ELSE ErrS
vA == <<"var","A",BoolT>>
FalseLike(r) == r.h = {} /\ IsAll(r.c) /\ r.c[3][2] = BoolT /\ r.c[3][3] = <<"bound",0>>
Clauses(e) ==
  IF e.outcome # "accepted" THEN {}
  ELSE LET r == ToSq(e.result) IN
       (IF SeqWellTyped(r) THEN {} ELSE {"WellTyped"})
       \cup (IF SeqWellTyped(r) /\ Examinable(r, 2) /\ ~Valid(r, 2) THEN {"Valid"} ELSE {})
       \cup (IF FalseLike(r) THEN {"NotFalse"} ELSE {})
\* the validity clause was really evaluated
Nontrivial(e) == e.outcome = "accepted" /\ LET r == ToSq(e.result) IN SeqWellTyped(r) /\ Examinable(r, 2)
Diverges(e) == IF e.route = "proof" \/ ~InputsOK(e) THEN FALSE
               ELSE LET x == RefOutcome(e) IN
                    IF e.outcome = "accepted" THEN (IsErrS(x) \/ x # ToSq(e.result)) ELSE ~IsErrS(x)
TNext == LET e == Trace[l] IN TStep(e.tid, Clauses(e), Nontrivial(e), Diverges(e))
TSpec == TInit /\ [][TNext]_l
=============================================================================
