SPECIFICATION Spec
CONSTANT Parts <- PartsSeq2x
INVARIANT ResolutionSound
INVARIANT RefutationComplete
INVARIANT CertificateAccepted
INVARIANT CertificateOnlyIfUnsat
INVARIANT ReplayFaithful
POSTCONDITION Emit
CHECK_DEADLOCK FALSE
