---------------------------- MODULE C15_SatTrace ----------------------------
(* T-specification for C15, SAT part.  Events come from the real prover/sat.py::solve_cnf      *)
(* (harness/drivers/c15.py), one per call:                                                      *)
(*   [tid, key, src, cnf, nv, verdict ("sat" | "unsat" | "timeout" | "raised:<E>" | "other"),   *)
(*    assignment << <<v,b>>.. >>, proofs << <<id, <<ids>> >>.. >>, dedup (probe of the code)]    *)
(* Clauses (names of what fails):                                                               *)
(*   Returns     the call raised an exception or returned something else than the two verdicts  *)
(*   Satisfies   "satisfiable" but the assignment does not satisfy every clause                 *)
(*   Refutation  "unsatisfiable" but the trace is not a ValidRefutation (each learned clause    *)
(*               obtained from the named clauses by successive resolution, the last one empty)  *)
(*   Agrees      the verdict differs from exhaustive search (evaluated when 2^nv is affordable;  *)
(*               S proves on the small scope that the two certificate clauses imply it)         *)
(*   Terminates  the call did not return within the bound AND the I-model of the code that is   *)
(*               present (C15_SatAlgo, Dedup = e.dedup) closes a loop from this very CNF, or the *)
(*               run itself was observed to repeat the identical conflict round (verdict rule 5);*)
(*               a time-out with neither explanation is only a divergence (SUSPECT)              *)
EXTENDS C15_SatAlgo, TraceLib

BruteSat == 6       \* exhaustive search on "sat" verdicts up to this many variables (implied by Satisfies anyway)
BruteUnsat == 12    \* exhaustive search on "unsat" verdicts up to this many variables

\* ---- does the model of the code loop from this CNF?
\* small inputs: every resolution of the model's nondeterminism (breadth first)
RECURSIVE LoopSearch(_, _, _)
LoopSearch(frontier, seen, fuel) ==
  IF frontier = {} \/ fuel = 0 THEN FALSE
  ELSE LET nxt == UNION { Succ(s) : s \in frontier } IN
       IF \E s \in nxt : s.stut THEN TRUE
       ELSE LoopSearch(nxt \ seen, seen \cup nxt, fuel - 1)
\* one run of the model that decides in the order in which the code iterates its variable set (e.order)
RECURSIVE LoopRun(_, _, _)
LoopRun(s, ord, fuel) ==
  IF fuel = 0 \/ s.pc = "done" THEN FALSE
  ELSE LET t == IF s.pc = "decide" THEN DecideOrd(s, ord) ELSE CHOOSE t \in Succ(s) : TRUE IN
       IF t.stut THEN TRUE ELSE LoopRun(t, ord, fuel - 1)
Small(e) == e.nv <= 4 /\ Len(e.cnf) <= 6
ModelLoops(e) == LET s0 == Start(e.cnf, 0, e.dedup) IN
                 (Len(e.cnf) <= 30 /\ LoopRun(s0, e.order, 600)) \/ (Small(e) /\ LoopSearch({s0}, {s0}, 400))

\* ---- or did the run itself cycle?  The driver records what the last three calls of `backtrack` did (run-time
\* observation, no source change): conflict clause, learned clause, trail after the back-jump, level returned.  Three
\* identical rounds: the round starts from the same trail, finds the same conflict, learns a clause that is already
\* there and returns to the same trail -- by the argument of I's Progress (the scan is a function of the trail and of
\* the clause list, to which equal clauses are only appended) the round repeats for ever.
TailEq(a, b) == a.cid = b.cid /\ LitSet(a.learned) = LitSet(b.learned) /\ a.asg = b.asg /\ a.ret = b.ret
ObservedLoop(e) == /\ Len(e.tail) >= 3
                   /\ e.tail[3].ret >= 0
                   /\ TailEq(e.tail[1], e.tail[2]) /\ TailEq(e.tail[2], e.tail[3])
Explained(e) == e.verdict = "timeout" /\ (ObservedLoop(e) \/ ModelLoops(e))

Returned(e) == e.verdict \in {"sat", "unsat"}
\* ml : Explained(e), evaluated once per event
ClausesM(e, ml) ==
  IF e.verdict = "sat" THEN
       (IF AsgFunctional(e.assignment) /\ AsgSatisfies(e.cnf, e.assignment) THEN {} ELSE {"Satisfies"})
       \cup (IF e.nv <= BruteSat /\ ~Satisfiable(e.cnf) THEN {"Agrees"} ELSE {})
  ELSE IF e.verdict = "unsat" THEN
       (IF ValidRefutation(e.cnf, e.proofs) \/ RefutationUndecided(e.cnf, e.proofs) THEN {} ELSE {"Refutation"})
       \cup (IF e.nv <= BruteUnsat /\ Satisfiable(e.cnf) THEN {"Agrees"} ELSE {})
  ELSE IF e.verdict = "timeout" THEN (IF ml THEN {"Terminates"} ELSE {})
  ELSE {"Returns"}
Clauses(e) == ClausesM(e, Explained(e))
\* non-trivial: a certificate was really replayed / checked, or a time-out was explained
Nontrivial(e) == Returned(e) \/ Explained(e)
\* divergence: a time-out that neither the model of the code nor the observed rounds explain (SUSPECT, never a failure)
Diverges(e) == e.verdict = "timeout" /\ ~Explained(e)
TNext == LET e == Trace[l]
             ml == Explained(e) IN
         TStep(e.tid, ClausesM(e, ml), Returned(e) \/ ml, e.verdict = "timeout" /\ ~ml)
TSpec == TInit /\ [][TNext]_l
=============================================================================
