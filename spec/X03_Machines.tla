---------------------------- MODULE X03_Machines ----------------------------
(* The two workbenches of X03 as FUNCTIONS of one step, shared by the S specifications (X03_Type, X03_Poly: TLC explores the      *)
(* histories) and the T specification (X03_Trace: every step performed by the real code is judged).                               *)
(*   XNext(S, op)             the reference: state after the operation and its outcome                                            *)
(*   XObs(S, op)              what the reference answers to the observations the operation makes                                   *)
(*   XClauses(S, op, A, out, o)   the statement about the step: names of the clauses that A / out / o (after-state, outcome,          *)
(*                            observations; the code's, or the reference's own) violate                                           *)
(*   XDiverges(S, op, A, out, o)  A / out / o differ from the reference (without necessarily violating the statement)                *)
(* Type workbench: S = [cur, ti, saved], op = [k, P, U, c, s].  Polynomial workbench: S = [p, q, r] (sequences as the code holds     *)
(* them, X03_Defs.PAbs gives the value), op = [k, g, c, n].                                                                      *)
EXTENDS X03_Defs

\* ====================================================================================================== types
SA == <<"stv","a">>  SB == <<"stv","b">>  TA == <<"tv","a">>  TB == <<"tv","b">>
TOp(k, P, U, c, s) == [k |-> k, P |-> P, U |-> U, c |-> c, s |-> s]
TSt(c, t, s) == [cur |-> c, ti |-> t, saved |-> s]
Wrapped(c, T) == CASE c = "list" -> TC1("list", T) [] c = "dom" -> FunT(T, NatT) [] OTHER -> FunT(SA, T)
Res(S, out) == [cur |-> S.cur, ti |-> S.ti, saved |-> S.saved, out |-> out]
TyNext(S, op) ==
  CASE op.k = "match" -> LET r == MatchP(op.P, op.U, S.ti) IN Res(TSt(S.cur, r[2], S.saved), IF r[1] THEN "ok" ELSE "TypeMatchException")
    [] op.k = "subst" -> Res(TSt(TSubst(S.cur, S.ti), S.ti, S.saved), "ok")
    [] op.k = "fresh" -> Res(TSt(S.cur, <<>>, S.saved), "ok")
    [] op.k = "inst" -> Res(TSt(S.cur, op.s, S.saved), "ok")
    [] op.k = "save" -> Res(TSt(S.cur, S.ti, S.ti), "ok")
    [] op.k = "conv" -> IF HasSTV(S.cur) THEN Res(S, "TypeException") ELSE Res(TSt(Conv(S.cur), S.ti, S.saved), "ok")
    [] op.k = "wrap" -> Res(TSt(Wrapped(op.c, S.cur), S.ti, S.saved), "ok")
    [] OTHER -> Res(S, "ok")                                            \* look, cmp, cmp3, subst2: observations
\* ---- what the reference answers
RefLook(T) ==
  LET s == Strip(T) IN
  [strip |-> s, refun |-> MkFun(s[1], s[2]), stv |-> VarsSeq(T, "stv"), tv |-> VarsSeq(T, "tv"), tsubs |-> SubsSeq(T), size |-> TSize(T),
   eqcopy |-> TRUE, heqcopy |-> TRUE, pout |-> "ok", ptoks |-> Toks(T), btoks |-> Toks(T), back |-> ParseToks(Toks(T)), bback |-> ParseToks(Toks(T)),
   fb |-> ParseToks(FullToks(T)),
   conv |-> IF HasSTV(T) THEN [out |-> "TypeException", res |-> NoT] ELSE [out |-> "ok", res |-> Conv(T)],
   convback |-> IF HasSTV(T) THEN NoT ELSE TSubst(Conv(T), BackInst(T))]
RefPair(T, U) == [eq |-> T = U, eq21 |-> U = T, heq |-> T = U, le12 |-> LeT(T, U), le21 |-> LeT(U, T), lt12 |-> LtT(T, U), lt21 |-> LtT(U, T),
                  c12 |-> CmpT(T, U), c21 |-> CmpT(U, T)]
RefTriple(T, U, V) == [le |-> <<LeT(T, U), LeT(U, V), LeT(T, V), LeT(U, T), LeT(V, U), LeT(V, T)>>,
                       c |-> <<CmpT(T, U), CmpT(U, V), CmpT(T, V), CmpT(U, T), CmpT(V, U), CmpT(V, T)>>]
RefMatch(P, U) == LET r == MatchP(P, U, <<>>) IN [out |-> IF r[1] THEN "ok" ELSE "TypeMatchException", inst |-> r[2]]
TyObs(S, op) ==
  CASE op.k = "look" -> RefLook(S.cur)
    [] op.k = "cmp" -> RefPair(S.cur, op.U)
    [] op.k = "cmp3" -> RefTriple(S.cur, op.P, op.U)
    [] op.k = "match" -> [m |-> RefMatch(op.P, op.U), P |-> op.P, U |-> op.U]
    [] op.k = "subst2" -> [r2 |-> TSubst(TSubst(S.cur, S.ti), S.saved), r3 |-> TSubst(S.cur, op.s)]
    [] OTHER -> [none |-> TRUE]
\* ---- the statement about one step
\* substitution: exactly the schematic variables of the domain are replaced, everywhere
SubstClauses(T, s, r1) ==
  (IF r1 = TSubst(T, s) THEN {} ELSE {"SubstExact"})
  \cup (IF Functional(s) /\ TyVarsOf(r1) # { v \in TyVarsOf(T) : ~(v[1] = "stv" /\ v[2] \in Keys(s)) }
                                           \cup UNION { TyVarsOf(Lookup(s, v[2])) : v \in { w \in TyVarsOf(T) : w[1] = "stv" /\ w[2] \in Keys(s) } }
        THEN {"SubstOnlyDomain"} ELSE {})
ALTypes(al) == { al[i][2] : i \in 1..Len(al) }
Same(a, b, nm) == IF a = b THEN {} ELSE {nm}
TyClauses(S, op, A, out, o) ==
  LET k == op.k
      keepCur == Same(A.cur, S.cur, "OperandsUntouched")
      keepTi == Same(A.ti, S.ti, "OperandsUntouched")
      keepSaved == Same(A.saved, S.saved, "CopyIsolated")
      okOut == Same(out, "ok", "OperationCompletes")
  IN CASE k = "look" -> TypeClauses(S.cur, o) \cup keepCur \cup keepTi \cup keepSaved \cup okOut
       [] k = "cmp" -> PairClauses(S.cur, op.U, o) \cup keepCur \cup keepTi \cup keepSaved \cup okOut
       [] k = "cmp3" -> TripleClauses(o) \cup keepCur \cup keepTi \cup keepSaved \cup okOut
       [] k = "match" ->
            keepCur \cup keepSaved \cup (IF o.P = op.P /\ o.U = op.U THEN {} ELSE {"OperandsUntouched"})
            \cup (IF ArityCoherent({op.P, op.U} \cup ALTypes(S.ti))
                  THEN MatchClauses(op.P, op.U, S.ti, A.ti, out = "ok", out \notin {"ok", "TypeMatchException"})
                       \cup MatchClauses(op.P, op.U, <<>>, o.m.inst, o.m.out = "ok", o.m.out \notin {"ok", "TypeMatchException"})
                  ELSE {})
       [] k = "subst" -> SubstClauses(S.cur, S.ti, A.cur) \cup keepTi \cup keepSaved \cup okOut
       [] k = "subst2" -> (IF o.r3 = TSubst(S.cur, op.s) THEN {} ELSE {"SubstExact"})
                          \cup (IF o.r2 = TSubst(S.cur, Compose(S.ti, S.saved)) THEN {} ELSE {"SubstComposes"})
                          \cup (IF ALSet(op.s) = ALSet(Compose(S.ti, S.saved)) /\ Functional(S.ti) /\ Functional(S.saved) /\ o.r3 # o.r2 THEN {"SubstComposes"} ELSE {})
                          \cup keepCur \cup keepTi \cup keepSaved \cup okOut
       [] k = "fresh" -> Same(A.ti, <<>>, "InstConstruction") \cup keepCur \cup keepSaved \cup okOut
       [] k = "inst" -> Same(ALSet(A.ti), ALSet(op.s), "InstConstruction") \cup keepCur \cup keepSaved \cup okOut
       [] k = "save" -> Same(ALSet(A.saved), ALSet(S.ti), "CopyEqualsOriginal") \cup keepCur \cup keepTi \cup okOut
       [] k = "conv" -> keepTi \cup keepSaved
                        \cup (IF out = "ok" THEN (IF HasSTV(S.cur) THEN {} ELSE Same(A.cur, Conv(S.cur), "ConvertDefinedness"))
                              ELSE IF HasSTV(S.cur) THEN keepCur ELSE {"ConvertDefinedness"})
       [] k = "wrap" -> Same(A.cur, Wrapped(op.c, S.cur), "Constructors") \cup keepTi \cup keepSaved \cup okOut
       [] OTHER -> {}
TyRanked(S, op) == AllRanked(S.cur) /\ AllRanked(op.U) /\ (op.k = "cmp" \/ AllRanked(op.P))
TyDiverges(S, op, A, out, o) ==
  LET n == TyNext(S, op) IN
  \/ <<A.cur, A.ti, A.saved, out>> # <<n.cur, n.ti, n.saved, n.out>>
  \/ op.k = "match" /\ (~ArityCoherent({op.P, op.U} \cup ALTypes(S.ti)) \/ o.m.out # RefMatch(op.P, op.U).out \/ (o.m.out = "ok" /\ o.m.inst # RefMatch(op.P, op.U).inst))
  \/ op.k = "cmp" /\ (~TyRanked(S, op) \/ o # RefPair(S.cur, op.U))
  \/ op.k = "cmp3" /\ (~TyRanked(S, op) \/ o # RefTriple(S.cur, op.P, op.U))
  \/ op.k = "look" /\ (o.ptoks # Toks(S.cur) \/ o.btoks # Toks(S.cur) \/ o.size # TSize(S.cur))
TyKinds == {"look", "cmp", "cmp3", "match", "subst", "subst2", "fresh", "inst", "save", "conv", "wrap"}

\* ====================================================================================================== polynomials
POp(k, g, c, n) == [k |-> k, g |-> g, c |-> c, n |-> n]
PSt(p, q, r) == [p |-> p, q |-> q, r |-> r]
\* on VALUES (canonical maps)
PoNextV(V, op) ==
  CASE op.k = "load" -> PSt(V.p, PAbs(op.g), V.r)
    [] op.k = "add" -> PSt(PAdd(V.p, V.q), V.q, V.r)
    [] op.k = "sub" -> PSt(PSub(V.p, V.q), V.q, V.r)
    [] op.k = "mul" -> PSt(PMul(V.p, V.q), V.q, V.r)
    [] op.k = "neg" -> PSt(PNeg(V.p), V.q, V.r)
    [] op.k = "scale" -> PSt(PScale(V.p, op.c), V.q, V.r)
    [] op.k = "pow" -> PSt(PPow(V.p, op.n), V.q, V.r)
    [] op.k = "rot" -> PSt(V.q, V.r, V.p)
    [] OTHER -> V                                                       \* look, laws, hash (the module defines no hash: nothing is asked of it): observations
Val(S) == PSt(PAbs(S.p), PAbs(S.q), PAbs(S.r))
StOvf(V) == PHasOvf(V.p) \/ PHasOvf(V.q) \/ PHasOvf(V.r)
\* the value of an operation on values (rationals), ROvf when a value is not representable
OnValues(k, a, b, c, n) ==
  CASE k = "add" -> RAdd(a, b) [] k = "sub" -> RSub(a, b) [] k = "mul" -> RMul(a, b) [] k = "neg" -> RNeg(a)
    [] k = "scale" -> RMul(c, a) [] k = "pow" -> RPow(a, n) [] OTHER -> a
EvalCommutesAt(k, vp, vq, c, n, res, pt) ==
  LET a == EvalP(vp, pt) b == EvalP(vq, pt) v == OnValues(k, a, b, c, n) w == EvalP(res, pt) IN
  RIsOvf(a) \/ RIsOvf(b) \/ RIsOvf(v) \/ RIsOvf(w) \/ v = w
EvalExamined(k, vp, vq, c, n, res, pt) ==
  LET a == EvalP(vp, pt) b == EvalP(vq, pt) v == OnValues(k, a, b, c, n) w == EvalP(res, pt) IN
  ~(RIsOvf(a) \/ RIsOvf(b) \/ RIsOvf(v) \/ RIsOvf(w))
Arith == {"add", "sub", "mul", "neg", "scale", "pow"}
\* a power that is not an integer occurs
HalfPowers(s) == \E i \in 1..Len(s) : \E j \in 1..Len(s[i][2]) : s[i][2][j][2][2] # 1
\* the basic results reported by a "laws" observation, as the reference computes them
BasicRef(V, c) == [add |-> PAdd(V.p, V.q), sub |-> PSub(V.p, V.q), mul |-> PMul(V.p, V.q), neg |-> PNeg(V.p), scale |-> PScale(V.p, c),
                   pow2 |-> PPow(V.p, 2), mulr |-> PMul(V.q, V.r)]
BasicNames == {"add", "sub", "mul", "neg", "scale", "pow2", "mulr"}
\* what the reference answers (sequences in the module's own order)
RefPred(v) == LET isz == v = {} isc == Cardinality(v) = 1 /\ \E t \in v : t[1] = {} IN
              [izc |-> isz, inzc |-> isc, ic |-> isz \/ isc,
               gc |-> IF isz \/ isc THEN [out |-> "ok", val |-> Coef(v, {})] ELSE [out |-> "AssertionError", val |-> RZero]]
RefEqs(V) == [pq |-> V.p = V.q, qp |-> V.q = V.p, pr |-> V.p = V.r, qr |-> V.q = V.r, pp |-> TRUE]
RefLaws(V, c) == [i \in 1..Len(LawNames) |-> LET s == LawSides(LawNames[i], V.p, V.q, V.r, c) IN
                                             [nm |-> LawNames[i], lhs |-> PSeq(s[1]), rhs |-> PSeq(s[2]), eq |-> s[1] = s[2]]]
PoObs(S, op) ==
  LET V == Val(S) N == PoNextV(V, op) IN
  CASE op.k = "laws" -> [pred |-> RefPred(N.p), eqs |-> RefEqs(N), laws |-> RefLaws(V, op.c),
                         basic |-> LET b == BasicRef(V, op.c) IN [add |-> PSeq(b.add), sub |-> PSeq(b.sub), mul |-> PSeq(b.mul), neg |-> PSeq(b.neg),
                                                                  scale |-> PSeq(b.scale), pow2 |-> PSeq(b.pow2), mulr |-> PSeq(b.mulr)]]
    [] OTHER -> [pred |-> RefPred(N.p), eqs |-> RefEqs(N)]
\* the reference after-state as sequences
PoNext(S, op) == LET N == PoNextV(Val(S), op) IN
                 CASE op.k = "load" -> PSt(S.p, op.g, S.r) [] op.k = "rot" -> PSt(S.q, S.r, S.p)
                   [] op.k \in Arith -> PSt(PSeq(N.p), S.q, S.r) [] OTHER -> S
EqClauses(V, e) == IF e.pq = (V.p = V.q) /\ e.qp = (V.q = V.p) /\ e.pr = (V.p = V.r) /\ e.qr = (V.q = V.r) /\ e.pp THEN {} ELSE {"EqIsEqualityOfNormalForms"}
LawEntryOK(x) == x.eq /\ NFSeq(x.lhs) /\ NFSeq(x.rhs) /\ PAbs(x.lhs) = PAbs(x.rhs)
PoClauses(S, op, A, out, o) ==
  LET V == Val(S)
      W == Val(A)
      N == PoNextV(V, op)
      big == StOvf(V) \/ StOvf(W) \/ StOvf(N)
  IN IF op.k = "load" /\ HalfPowers(op.g) /\ out # "ok" THEN {}          \* the module asserts integer powers: refused, a divergence only
     ELSE IF out # "ok" THEN {"OperationCompletes"}
     ELSE (IF NFSeq(A.p) /\ NFSeq(A.q) /\ NFSeq(A.r) THEN {} ELSE {"NormalForm"})
          \cup (IF op.k \in Arith THEN Same(A.q, S.q, "OperandsUntouched") \cup Same(A.r, S.r, "OperandsUntouched")
                ELSE IF op.k \in {"load", "rot"} THEN {} ELSE Same(A, S, "OperandsUntouched"))
          \cup (IF big THEN {}
                ELSE Same(W, N, "OperationExact")
                     \cup (IF op.k \in Arith /\ \E pt \in Points : ~EvalCommutesAt(op.k, V.p, V.q, op.c, op.n, W.p, pt) THEN {"EvalCommutes"} ELSE {})
                     \cup (IF "pred" \in DOMAIN o THEN PredClauses(W.p, o.pred) ELSE {}) \cup EqClauses(W, o.eqs)
                     \cup (IF op.k = "laws"
                           THEN (IF \A i \in 1..Len(o.laws) : LawEntryOK(o.laws[i]) THEN {} ELSE {"RingLaw"})
                                \cup (IF \A nm \in BasicNames : NFSeq(o.basic[nm]) THEN {} ELSE {"NormalForm"})
                                \cup (LET b == BasicRef(V, op.c) IN
                                      IF \E nm \in BasicNames : PHasOvf(b[nm]) THEN {}
                                      ELSE IF \A nm \in BasicNames : PAbs(o.basic[nm]) = b[nm] THEN {} ELSE {"OperationExact"})
                           ELSE {}))
\* which law fails (information for the report)
PoExamined(S, op, A, out) == out = "ok" /\ ~(StOvf(Val(S)) \/ StOvf(Val(A)) \/ StOvf(PoNextV(Val(S), op)))
PoDiverges(S, op, A, out, o) ==
  \/ out # "ok"
  \/ ~(KnownAtoms(A.p) /\ KnownAtoms(A.q) /\ KnownAtoms(A.r))
  \/ ~(SortedSeq(A.p) /\ SortedSeq(A.q) /\ SortedSeq(A.r))
PoKinds == {"look", "load", "add", "sub", "mul", "neg", "scale", "pow", "rot", "laws", "hash"}
=============================================================================
