------------------------------ MODULE C20_Hoare ------------------------------
(* S-specification for C20: annotated while-programs as a machine.                              *)
(*   universe : (program, precondition, postcondition) triples built from small pools that       *)
(*              contain nested subtraction, products of sums, negated conjunctions and nested    *)
(*              implications; integer programs (imperative/com.py) and natural-number programs   *)
(*              (imperative/imp.py).  Preconditions and invariants carry the box conjunct.       *)
(*   state    : the triple, the initial store s0, a continuation stack, the current store        *)
(*   actions  : small-step execution (Step)                                                      *)
(*   initial  : every triple whose REFERENCE verification conditions all hold (decided exactly   *)
(*              on the box, C20_HoareSem!Guarded) x every store satisfying the precondition      *)
(*   property : Sound       -- a finished execution ends in the postcondition                    *)
(*              ExecAgrees  -- the big-step function Exec used by the trace specification agrees *)
(*                             with the machine                                                  *)
(*   history  : st = "ann": a command object annotated for a triple; ReAnnotate / ReInvariant    *)
(*              annotate the SAME object again (reference: history-free), Start executes it when  *)
(*              its current conditions all hold                                                  *)
(* One extra initial state (st = "emit") writes the whole universe as vectors for the driver.    *)
EXTENDS C20_HoareSem, SequencesExt, Json, IOUtils

CONSTANTS NAsg, NGrd, NAnn, NInA, NInG, NPre, NPost, NNatPost, Deep

\* ---------------------------------------------------------------- constructors
X == <<"v", "x">>   Y == <<"v", "y">>   N(k) == <<"n", k>>
Plus(a, b) == <<"+", a, b>>   Minus(a, b) == <<"-", a, b>>   Times(a, b) == <<"*", a, b>>   Neg(a) == <<"neg", a>>
Lt(a, b) == <<"<", a, b>>   Le(a, b) == <<"<=", a, b>>   Eq(a, b) == <<"==", a, b>>   Ne(a, b) == <<"!=", a, b>>
Not(p) == <<"not", p>>   And(p, q) == <<"and", p, q>>   Or(p, q) == <<"or", p, q>>   Imp(p, q) == <<"imp", p, q>>
True == <<"true">>
Asg(x, e) == <<"asg", x, e>>   Skip == <<"skip">>   SeqC(c, d) == <<"seq", c, d>>
If(b, c, d) == <<"if", b, c, d>>   While(b, i, c) == <<"while", b, i, c>>
Take(sq, n) == { sq[i] : i \in 1..(IF n < Len(sq) THEN n ELSE Len(sq)) }

\* ---------------------------------------------------------------- integer pools (imperative/com.py)
IAsgSeq == << Asg("x", Plus(X, N(1))),                   \* x := x + 1
              Asg("x", Minus(Minus(X, Y), N(1))),        \* x := (x - y) - 1       left-nested subtraction
              Asg("x", Minus(X, N(1))),                  \* x := x - 1
              Asg("x", Plus(Times(X, Y), N(1))),         \* x := (x * y) + 1       sum of a product
              Asg("y", Times(Plus(X, N(1)), Y)),         \* y := (x + 1) * y       product of a sum
              Asg("y", Minus(Y, Minus(X, N(1)))),        \* y := y - (x - 1)       right-nested subtraction
              Asg("y", Neg(Plus(X, Y))),                 \* y := -(x + y)
              Asg("x", N(0)),
              Asg("y", X),
              Asg("y", Plus(Neg(X), Y)) >>               \* y := (-x) + y
IGrdSeq == << Lt(N(0), X),                               \* 0 < x
              And(Lt(N(0), X), Lt(Y, N(2))),             \* 0 < x & y < 2           (its negation needs brackets)
              Ne(X, Y),
              Not(Lt(X, Y)),                             \* ~(x < y)                (its negation is ~~...)
              Lt(Minus(Minus(X, Y), N(1)), N(0)),        \* (x - y) - 1 < 0
              Or(Eq(X, N(0)), Eq(Y, N(0))),
              Lt(X, N(2)) >>
\* (the literal `true` is avoided in the integer pools: expr.Const(True).convert_hol does not return a HOL term --
\*  imperative/expr.py rebinds the name `true` -- so get_lines raises on every condition containing it)
IAssSeq == << Le(X, N(2)),                               \* x <= 2   (implied by the box: the "no information" assertion)
              Le(N(0), X),                               \* 0 <= x
              Eq(X, N(0)),
              Imp(Imp(Lt(X, N(1)), Lt(Y, N(1))), Eq(X, Y)),     \* (x < 1 --> y < 1) --> x == y
              Not(And(Lt(X, N(0)), Lt(Y, N(0)))),        \* ~(x < 0 & y < 0)
              Le(Minus(X, Minus(Y, N(1))), N(2)),        \* x - (y - 1) <= 2
              Lt(Y, X),
              Or(Eq(X, N(0)), Eq(Y, N(0))),
              Eq(Plus(X, Y), N(2)),
              Le(Plus(Times(X, Y), N(1)), N(2)) >>       \* (x * y) + 1 <= 2
IBox == BoxCond(IntLo, IntHi, TRUE)
IBoxed(a) == IF a = True THEN IBox ELSE BoxedWith(IntLo, IntHi, TRUE, a)
\* ---------------------------------------------------------------- natural-number pools (imperative/imp.py)
NAsgSeq == << Asg("x", Plus(X, N(1))),
              Asg("y", Plus(Y, X)),
              Asg("x", Times(X, Plus(Y, N(1)))),         \* x := x * (y + 1)
              Asg("y", Times(Plus(X, N(1)), Y)),         \* y := (x + 1) * y
              Asg("x", N(0)),
              Asg("y", Plus(Times(X, Y), N(1))) >>
NGrdSeq == << Ne(X, N(3)), Eq(X, Y), Ne(X, Y), Lt(X, N(2)), And(Ne(X, N(2)), Eq(Y, N(0))), Eq(Y, N(0)) >>
NAssSeq == << True, Eq(X, N(3)), Le(X, Y), Eq(Plus(X, Y), N(3)), Not(Eq(X, N(0))), Le(Times(X, Y), N(2)) >>
NBox == BoxCond(NatLo, NatHi, FALSE)
NBoxed(a) == IF a = True THEN NBox ELSE BoxedWith(NatLo, NatHi, FALSE, a)

\* ---------------------------------------------------------------- program universe
\* ina / ing : the small pools used at inner positions (first NInA assignments, first NInG guards)
Progs(asgs, grds, anns, ina, ing, a1) ==
  LET Base == asgs \cup {Skip}
      AI == ina \cup {Skip}
      Seqs == { SeqC(a, b) : a \in asgs, b \in asgs }
      Ifs == { If(g, a, b) : g \in grds, a \in AI, b \in AI }
      SeqIf == { SeqC(a, If(h, b, c)) : a \in ina, h \in ing, b \in AI, c \in AI }
      Wh1 == { While(g, i, b) : g \in grds, i \in anns, b \in asgs }
      Wh1s == { While(g, i, b) : g \in ing, i \in anns, b \in ina }
      Wh2 == { While(g, i, SeqC(a, b)) : g \in ing, i \in anns, a \in ina, b \in ina }
      SeqWh == { SeqC(a, While(g, i, b)) : a \in ina, g \in ing, i \in anns, b \in ina }
      WhSeq == { SeqC(While(g, i, b), a) : g \in ing, i \in anns, b \in ina, a \in ina }
      WhIf == { While(g, i, If(h, a, Skip)) : g \in ing, h \in ing, i \in anns, a \in ina }
      IfWh == { If(h, While(g, i, a), b) : h \in ing, g \in ing, i \in anns, a \in ina, b \in {a1, Skip} }
      \* nesting 3 (and 4 when Deep)
      N3 == { SeqC(a, While(g, i, SeqC(b, If(h, a, Skip)))) : a \in ina, b \in ina, g \in ing, h \in ing, i \in anns }
            \cup { While(g, i, SeqC(a1, While(h, j, b))) : g \in ing, h \in ing, i \in anns, j \in anns, b \in ina }
      N4 == IF Deep THEN { SeqC(w, If(h, SeqC(a, b), Skip)) : w \in Wh1s, h \in ing, a \in ina, b \in ina }
                          \cup { If(h, SeqC(a, While(g, i, If(h, b, Skip))), b) : h \in ing, g \in ing, i \in anns, a \in ina, b \in ina }
            ELSE {}
  IN Base \cup Seqs \cup Ifs \cup SeqIf \cup Wh1 \cup Wh2 \cup SeqWh \cup WhSeq \cup WhIf \cup IfWh \cup N3 \cup N4
IAnn == { IBoxed(a) : a \in Take(IAssSeq, NAnn) }
NAnn2 == { NBoxed(a) : a \in Take(NAssSeq, NAnn) }
IProgs == Progs(Take(IAsgSeq, NAsg), Take(IGrdSeq, NGrd), IAnn, Take(IAsgSeq, NInA), Take(IGrdSeq, NInG), IAsgSeq[1])
NProgs == Progs(Take(NAsgSeq, NAsg), Take(NGrdSeq, NGrd), NAnn2, Take(NAsgSeq, NInA), Take(NGrdSeq, NInG), NAsgSeq[1])
Trip(d, c, P, Q) == [dom |-> d, prog |-> c, pre |-> P, post |-> Q]
\* ---------------------------------------------------------------- "branch on a temporary" programs (integer)
\* assignment(s) to x, then a conditional whose TEST reads x while its branches assign y from expressions without x, with
\* postconditions that talk about y only: the weakest preconditions of both branches do not mention the assigned variable,
\* only the test does.  Also: nested conditionals, the shape after a loop, and inside a loop body.
TmpAX == Take(<< Asg("x", Plus(X, N(1))), Asg("x", Minus(X, N(1))), Asg("x", Minus(Minus(X, Y), N(1))) >>, IF Deep THEN 3 ELSE 2)
TmpGX == Take(<< Lt(X, N(2)), Lt(N(0), X), Not(Lt(X, Y)) >>, IF Deep THEN 3 ELSE 2)
TmpBY == { Asg("y", N(1)), Asg("y", Plus(Y, N(1))) }
TmpCY == { Asg("y", N(0)), Skip }
TmpPosts == Take(<< Eq(Y, N(1)), Le(Y, N(0)), Lt(N(0), Y), Not(Eq(Y, N(1))) >>, IF Deep THEN 4 ELSE 2)
TmpIfs == { If(g, b, c) : g \in TmpGX, b \in TmpBY, c \in TmpCY }
TmpNested == { If(p[1], If(p[2], b, c), c) : p \in { q \in TmpGX \X TmpGX : q[1] # q[2] }, b \in TmpBY, c \in TmpCY }
TmpProgs ==
  LET first == IAsgSeq[1]  g1 == IGrdSeq[1]
      anns == IAnn
      inner == IF Deep THEN TmpIfs ELSE { If(g, Asg("y", N(1)), Asg("y", N(0))) : g \in TmpGX }
  IN { SeqC(a, i) : a \in TmpAX, i \in TmpIfs }
     \cup { SeqC(a, i) : a \in TmpAX, i \in (IF Deep THEN TmpNested ELSE { If(Lt(X, N(2)), If(Lt(N(0), X), b, c), c) : b \in TmpBY, c \in TmpCY }) }
     \cup { SeqC(a, SeqC(Asg("x", Minus(X, N(1))), i)) : a \in TmpAX, i \in inner }
     \cup { SeqC(While(g1, n, first), SeqC(a, i)) : n \in anns, a \in TmpAX, i \in inner }
     \cup { While(g1, n, SeqC(a, i)) : n \in anns, a \in TmpAX, i \in inner }
TmpTriples == { Trip("int", c, IBox, Q) : c \in TmpProgs, Q \in TmpPosts }
              \cup { Trip("int", c, IBoxed(WPV(c, Q)[1]), Q) : c \in TmpProgs, Q \in TmpPosts }
\* preconditions: the pool, and  box & wp(c, Q)  (the weakest precondition the reference computes: {wp(c,Q)} c {Q})
ITriples == { Trip("int", c, IBoxed(P), Q) : c \in IProgs, P \in Take(IAssSeq, NPre), Q \in Take(IAssSeq, NPost) }
            \cup { Trip("int", c, IBoxed(WPV(c, Q)[1]), Q) : c \in IProgs, Q \in Take(IAssSeq, NPost) }
            \cup TmpTriples
NTriples == { Trip("nat", c, NBoxed(P), Q) : c \in NProgs, P \in Take(NAssSeq, NPre), Q \in Take(NAssSeq, NNatPost) }
            \cup { Trip("nat", c, NBoxed(WPV(c, Q)[1]), Q) : c \in NProgs, Q \in Take(NAssSeq, NNatPost) }
BoxD(d) == IF d = "int" THEN BoxOf(IntLo, IntHi) ELSE BoxOf(NatLo, NatHi)
RefHold(t) == \A vc \in RefVCs(t.pre, t.prog, t.post) : HoldsOn(vc, BoxD(t.dom))
RefGuarded(t) == \A vc \in RefVCs(t.pre, t.prog, t.post) :
                    Guarded(vc, IF t.dom = "int" THEN IntLo ELSE NatLo, IF t.dom = "int" THEN IntHi ELSE NatHi, t.dom = "int")
\* the universe, each triple flagged with the number of reference conditions that fail (an input-selection hint for
\* the driver's sampling of natural-number triples; verdicts on events are computed by the trace specification)
RefFailing(t) == Cardinality({ vc \in RefVCs(t.pre, t.prog, t.post) : ~HoldsOn(vc, BoxD(t.dom)) })
Flagged == { [t |-> t, nfail |-> RefFailing(t)] : t \in ITriples \cup NTriples }

\* ---------------------------------------------------------------- the machine
\* A state keeps what execution and the properties need: the program without its annotations (execution ignores
\* invariants), the postcondition, the initial and the current store, the continuation.  Triples that differ only in
\* annotations / preconditions share their executions.
VARIABLES prog, post, s0, kont, s, st, h
vars == <<prog, post, s0, kont, s, st, h>>
RECURSIVE Strip(_), HasLoop(_)
Strip(c) == CASE c[1] \in {"skip", "asg"} -> c
              [] c[1] = "seq" -> <<"seq", Strip(c[2]), Strip(c[3])>>
              [] c[1] = "if" -> <<"if", c[2], Strip(c[3]), Strip(c[4])>>
              [] c[1] = "while" -> <<"while", c[2], True, Strip(c[4])>>
HasLoop(c) == CASE c[1] \in {"skip", "asg"} -> FALSE
                [] c[1] = "seq" -> HasLoop(c[2]) \/ HasLoop(c[3])
                [] c[1] = "if" -> HasLoop(c[3]) \/ HasLoop(c[4])
                [] c[1] = "while" -> TRUE
\* (program, initial store) inputs for symbolic evaluation: guards that imp.eval_Sem can decide, terminating runs
RECURSIVE EqGuards(_)
EqGuards(c) == CASE c[1] \in {"skip", "asg"} -> TRUE
                 [] c[1] = "seq" -> EqGuards(c[2]) /\ EqGuards(c[3])
                 [] c[1] = "if" -> c[2][1] \in {"==", "!="} /\ EqGuards(c[3]) /\ EqGuards(c[4])
                 [] c[1] = "while" -> c[2][1] \in {"==", "!="} /\ EqGuards(c[4])
SemVectors == UNION { { [prog |-> c, s0 |-> s0_] : s0_ \in { s1 \in BoxOf(0, 2) : Run(c, s1)[1] = "ok" } } : c \in { c \in NProgs : EqGuards(c) } }
\* ---------------------------------------------------------------- annotation history
\* imperative/com.py keeps the annotations (pre/post chains) ON the command object, and clients re-annotate one parsed
\* object: c.pre = [P]; c.compute_wp(Q); c.get_vcs(..) -- then again with another precondition, postcondition or
\* invariant.  The reference is history-free: re-annotating an object yields the conditions of a fresh object.
\*   h = [pre, post : the triple the object is currently annotated for;  ok : all its current conditions hold;  n : #annotations]
RECURSIVE SetInv(_, _)
SetInv(c, i) == CASE c[1] = "while" -> <<"while", c[2], i, c[4]>>
                  [] c[1] = "seq" -> IF HasLoop(c[2]) THEN <<"seq", SetInv(c[2], i), c[3]>> ELSE <<"seq", c[2], SetInv(c[3], i)>>
                  [] c[1] = "if" -> IF HasLoop(c[3]) THEN <<"if", c[2], SetInv(c[3], i), c[4]>> ELSE <<"if", c[2], c[3], SetInv(c[4], i)>>
                  [] OTHER -> c
NoH == [pre |-> True, post |-> True, ok |-> FALSE, n |-> 0]
AnnVCs(old, c, P, Q) == RefVCs(P, c, Q)
AnnOK(old, c, P, Q) == \A vc \in AnnVCs(old, c, P, Q) : HoldsOn(vc, BoxOf(IntLo, IntHi))
HistInvs == { IBoxed(IAssSeq[i]) : i \in 1..(IF Deep THEN 3 ELSE 2) }
HistPres == { IBoxed(IAssSeq[i]) : i \in 1..(IF Deep THEN 3 ELSE 2) }          \* box (weakest), box & 0 <= x, box & x == 0
HistPosts == { IAssSeq[i] : i \in 1..(IF Deep THEN 3 ELSE 2) }
HistProgs ==
  LET a1 == IAsgSeq[1]  a2 == IAsgSeq[2]  a3 == IAsgSeq[3]  g == IGrdSeq[1]
      w(i) == While(g, i, a3)
      i2 == IBoxed(IAssSeq[2])
  IN { a1, a3, SeqC(a1, a2), If(g, a3, Skip), SeqC(a1, If(Lt(X, N(2)), Asg("y", N(1)), Asg("y", N(0)))) }
     \cup { w(i) : i \in HistInvs } \cup { SeqC(a1, w(i)) : i \in HistInvs }
     \cup { SeqC(w(i2), a1), While(g, i2, If(g, a3, Skip)), If(g, w(i2), Skip) }
\* histories of two annotations for the driver: (P1, Q1) then (P2, Q2), or the same triple after a change of the invariant
\* of the first loop (inv2; <<"true">> = unchanged)
HistVectors == { [prog |-> c, p1 |-> P1, q1 |-> Q1, p2 |-> P2, q2 |-> Q2, inv2 |-> True]
                   : c \in HistProgs, P1 \in HistPres, Q1 \in HistPosts, P2 \in HistPres, Q2 \in HistPosts }
               \cup { [prog |-> c, p1 |-> P1, q1 |-> Q1, p2 |-> P1, q2 |-> Q1, inv2 |-> i]
                   : c \in { d \in HistProgs : HasLoop(d) }, P1 \in HistPres, Q1 \in HistPosts, i \in HistInvs }
Emit(all) == /\ LET vs == SetToSeq({ [dom |-> f.t.dom, prog |-> f.t.prog, pre |-> f.t.pre, post |-> f.t.post, nfail |-> f.nfail] : f \in all })
                  IN ndJsonSerialize(IOEnv.VECTOR_FILE, vs)
             /\ ndJsonSerialize(IOEnv.VECTOR_FILE_SEM, SetToSeq(SemVectors))
             /\ ndJsonSerialize(IOEnv.VECTOR_FILE_HIST, SetToSeq(HistVectors))
             /\ PrintT(<<"C20stats", Cardinality(ITriples), Cardinality(NTriples), Cardinality(SemVectors),
                         Cardinality({ f \in all : f.nfail = 0 }), Cardinality({ f \in all : f.nfail = 0 /\ HasLoop(f.t.prog) })>>)
Init == LET all == Flagged IN
        \/ /\ st = "emit" /\ prog = Skip /\ post = True /\ s0 = ZeroStore /\ s = ZeroStore /\ kont = <<>> /\ h = NoH /\ Emit(all)
        \/ /\ st = "ann" /\ prog \in HistProgs /\ post \in HistPosts /\ s0 = ZeroStore /\ s = ZeroStore /\ kont = <<>>
           /\ \E P \in HistPres : h = [pre |-> P, post |-> post, ok |-> AnnOK(NoH, prog, P, post), n |-> 1]
        \/ /\ st = "run" /\ h = NoH
           /\ \E f \in { g \in all : g.nfail = 0 } :
                 /\ prog = Strip(f.t.prog) /\ post = f.t.post
                 /\ s0 \in { s1 \in BoxD(f.t.dom) : EvalB(f.t.pre, s1) }
           /\ s = s0 /\ kont = <<prog>>
Step == /\ st = "run"
        /\ IF Len(kont) = 0 THEN st' = "done" /\ UNCHANGED <<kont, s>>
           ELSE LET c == Head(kont)  rest == Tail(kont) IN
             CASE c[1] = "skip" -> kont' = rest /\ UNCHANGED <<s, st>>
               [] c[1] = "asg" -> LET s2 == [s EXCEPT ![c[2]] = EvalE(c[3], s)] IN
                                  IF InCap(s2) THEN s' = s2 /\ kont' = rest /\ st' = st
                                  ELSE st' = "big" /\ UNCHANGED <<kont, s>>
               [] c[1] = "seq" -> kont' = <<c[2], c[3]>> \o rest /\ UNCHANGED <<s, st>>
               [] c[1] = "if" -> kont' = <<IF EvalB(c[2], s) THEN c[3] ELSE c[4]>> \o rest /\ UNCHANGED <<s, st>>
               [] c[1] = "while" -> kont' = (IF EvalB(c[2], s) THEN <<c[4], c>> \o rest ELSE rest) /\ UNCHANGED <<s, st>>
        /\ UNCHANGED <<prog, post, s0, h>>
\* the same object is annotated again: for another precondition and/or postcondition ...
ReAnnotate == /\ st = "ann" /\ h.n < 2
              /\ \E P \in HistPres, Q \in HistPosts :
                    /\ h' = [pre |-> P, post |-> Q, ok |-> AnnOK(h, prog, P, Q), n |-> h.n + 1] /\ post' = Q
              /\ UNCHANGED <<prog, s0, kont, s, st>>
\* ... or for the same triple after the invariant of its first loop was replaced
ReInvariant == /\ st = "ann" /\ h.n < 2 /\ HasLoop(prog)
               /\ \E i \in HistInvs :
                     /\ prog' = SetInv(prog, i)
                     /\ h' = [h EXCEPT !.ok = AnnOK([h EXCEPT !.post = True], SetInv(prog, i), h.pre, h.post), !.n = h.n + 1]
               /\ UNCHANGED <<post, s0, kont, s, st>>
\* the current annotation is accepted (all its conditions hold): run the program from a store of its precondition
Start == /\ st = "ann" /\ h.ok
         /\ \E s1 \in { s2 \in BoxOf(IntLo, IntHi) : EvalB(h.pre, s2) } : s0' = s1 /\ s' = s1
         /\ prog' = Strip(prog) /\ kont' = <<Strip(prog)>> /\ st' = "run" /\ h' = NoH /\ UNCHANGED post
Next == Step \/ ReAnnotate \/ ReInvariant \/ Start
Spec == Init /\ [][Next]_vars

\* ---------------------------------------------------------------- properties
Sound == st = "done" => EvalB(post, s)
ExecAgrees == /\ st = "done" => LET r == Run(prog, s0) IN r[1] = "div" \/ (r[1] = "ok" /\ r[2] = s)
              /\ st = "big" => Run(prog, s0)[1] \in {"div", "big"}
\* design decision (i): every reference condition of the universe is guarded, i.e. decided exactly on the box
AllGuarded == st = "emit" => \A t \in ITriples \cup NTriples : RefGuarded(t)
=============================================================================
