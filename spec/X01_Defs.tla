------------------------------ MODULE X01_Defs ------------------------------
(* Constant-level vocabulary of X01, shared by the S specifications (X01_Theory, X01_Context) and the T specification  *)
(* (X01_Trace): a kernel Theory as a VALUE, the reference meaning of one extension item, and the statement's clauses  *)
(* about ONE step, as operators returning the set of names of failing clauses.  The S specifications model the        *)
(* MECHANISM (dictionaries as heap cells, the schematic-variable cache, the global theory/context pointers) and have   *)
(* these clauses as invariants; the T specification applies the same operators to projections of the real objects.    *)
(*                                                                                                                     *)
(*  value V   = [ty : {<<name, arity>>}, co : {<<name, type>>}, ov : {name}, th : {<<name, stmt>>},                    *)
(*               at : {<<name, <<attribute...>> >>}]                                                                   *)
(*  observed P = V + [sv : {<<name, stmt>>}   get_theorem(name, svar=True) for every theorem name (asked on a copy)    *)
(*                    ck : {name}             keys of get_data("theorems_svar")                                        *)
(*                    hs : {<<kind, name>>}   has_type_sig / has_term_sig / has_theorem answers that are TRUE           *)
(*                    mc : {<<macro, limit, available>>}  theory.has_macro with the object as global theory]            *)
(*  type / term encodings: spec/lib/HolTerms.tla;  stmt = <<hyps, prop>>                                               *)
(*  item      = <<kind, name, arity, type, stmt, attribute, proof>>   kind in type|const|over|thm|attr|junk;           *)
(*               proof in none|good|bad (only looked at by checked_extend); unused positions hold dummies              *)
EXTENDS HolTerms

IKind(i) == i[1]
IName(i) == i[2]
IArity(i) == i[3]
IType(i) == i[4]
IStmt(i) == i[5]
IAttr(i) == i[6]
IPrf(i) == i[7]

ToSet(s) == { s[i] : i \in 1..Len(s) }
NamesOf(S) == { p[1] : p \in S }
ValOf(S, n) == (CHOOSE p \in S : p[1] = n)[2]
Upd(S, n, v) == { p \in S : p[1] # n } \cup { <<n, v>> }

\* ---- Type.convert_stvar / Term.convert_svar / Thm.convert_svar on the encodings ----
RECURSIVE StvT(_), SvarT(_), HasSchematicT(_), HasSchematic(_)
StvT(T) == CASE T[1] = "tv" -> <<"stv", T[2]>>
             [] T[1] = "tc" -> <<"tc", T[2], [i \in 1..Len(T[3]) |-> StvT(T[3][i])]>>
             [] OTHER -> T
SvarT(t) == CASE t[1] = "var" -> <<"svar", t[2], StvT(t[3])>>
              [] t[1] = "const" -> <<"const", t[2], StvT(t[3])>>
              [] t[1] = "comb" -> <<"comb", SvarT(t[2]), SvarT(t[3])>>
              [] t[1] = "abs" -> <<"abs", StvT(t[2]), SvarT(t[3])>>
              [] OTHER -> t
HasSchematicT(T) == CASE T[1] = "stv" -> TRUE [] T[1] = "tc" -> \E i \in 1..Len(T[3]) : HasSchematicT(T[3][i]) [] OTHER -> FALSE
HasSchematic(t) == CASE t[1] = "svar" -> TRUE
                     [] t[1] \in {"var", "const"} -> HasSchematicT(t[3])
                     [] t[1] = "comb" -> HasSchematic(t[2]) \/ HasSchematic(t[3])
                     [] t[1] = "abs" -> HasSchematicT(t[2]) \/ HasSchematic(t[3])
                     [] OTHER -> FALSE
\* the schematic form exists for theorems without hypotheses and without schematic variables (else the code raises)
Examinable(st) == Len(st[1]) = 0 /\ ~HasSchematic(st[2])
SvarS(st) == << <<>>, SvarT(st[2]) >>

\* ---- overloading (Theory.add_term_sig on an overloaded name): instance of the general type, instantiated with type constants ----
InstOK(gen, T) == LET m == TMatch(StvT(gen), T, <<>>) IN m # ErrAL /\ \A i \in 1..Len(m) : m[i][2][1] = "tc"

\* ---- reference meaning of one extension item on a value ----
\* "ok" the item is installed (a theorem of an existing name REPLACES it, as the kernel always allowed; a type that is declared again
\* is the business of Redeclares below);  "readd" a constant that exists and is not overloaded: refused with TheoryException;
\* "bad" the item is invalid
Status(V, it, checked) ==
  CASE IKind(it) = "type"  -> "ok"
    [] IKind(it) = "const" -> IF IName(it) \in V.ov
                              THEN (IF IName(it) \in NamesOf(V.co) /\ InstOK(ValOf(V.co, IName(it)), IType(it)) THEN "ok" ELSE "bad")
                              ELSE (IF IName(it) \in NamesOf(V.co) THEN "readd" ELSE "ok")
    [] IKind(it) = "thm"   -> IF checked /\ IPrf(it) = "bad" THEN "bad" ELSE "ok"
    [] IKind(it) \in {"over", "attr"} -> "ok"
    [] OTHER -> "bad"
Install(V, it) ==
  CASE IKind(it) = "type"  -> [V EXCEPT !.ty = Upd(@, IName(it), IArity(it))]
    [] IKind(it) = "const" -> IF IName(it) \in V.ov THEN V ELSE [V EXCEPT !.co = @ \cup {<<IName(it), IType(it)>>}]
    [] IKind(it) = "over"  -> [V EXCEPT !.ov = @ \cup {IName(it)}]
    [] IKind(it) = "thm"   -> [V EXCEPT !.th = Upd(@, IName(it), IStmt(it))]
    [] IKind(it) = "attr"  -> [V EXCEPT !.at = Upd(@, IName(it), Append(IF IName(it) \in NamesOf(@) THEN ValOf(@, IName(it)) ELSE <<>>, IAttr(it)))]
    [] OTHER -> V
\* names of the type constructors / constants a type / term mentions
RECURSIVE TConstsOf(_), TConstsOfTerm(_), ConstsOfTerm(_)
TConstsOf(T) == IF T[1] = "tc" THEN {T[2]} \cup UNION { TConstsOf(T[3][i]) : i \in 1..Len(T[3]) } ELSE {}
TConstsOfTerm(t) == CASE t[1] \in {"var", "svar", "const"} -> TConstsOf(t[3])
                      [] t[1] = "comb" -> TConstsOfTerm(t[2]) \cup TConstsOfTerm(t[3])
                      [] t[1] = "abs" -> TConstsOf(t[2]) \cup TConstsOfTerm(t[3])
                      [] OTHER -> {}
ConstsOfTerm(t) == CASE t[1] = "const" -> {t[2]}
                     [] t[1] = "comb" -> ConstsOfTerm(t[2]) \cup ConstsOfTerm(t[3])
                     [] t[1] = "abs" -> ConstsOfTerm(t[3])
                     [] OTHER -> {}
\* an "ok" item that a stricter kernel could legitimately refuse (then the run may stop in front of it): a type that exists with the
\* same arity, an overload mark / an attribute for an unknown name, a constant or theorem that mentions undeclared types or constants
Maybe(V, it) ==
  CASE IKind(it) = "type"  -> IName(it) \in NamesOf(V.ty)
    [] IKind(it) = "over"  -> IName(it) \notin NamesOf(V.co)
    [] IKind(it) = "attr"  -> IName(it) \notin NamesOf(V.th)
    [] IKind(it) = "const" -> ~(TConstsOf(IType(it)) \subseteq NamesOf(V.ty))
    [] IKind(it) = "thm"   -> ~(TConstsOfTerm(IStmt(it)[2]) \subseteq NamesOf(V.ty) /\ ConstsOfTerm(IStmt(it)[2]) \subseteq NamesOf(V.co)
                                /\ \A i \in 1..Len(IStmt(it)[1]) : TConstsOfTerm(IStmt(it)[1][i]) \subseteq NamesOf(V.ty) /\ ConstsOfTerm(IStmt(it)[1][i]) \subseteq NamesOf(V.co))
    [] OTHER -> FALSE
RECURSIVE AfterItems(_,_,_), FirstBadFrom(_,_,_,_)
\* the value after the first j items were installed
AfterItems(V, items, j) == IF j = 0 THEN V ELSE Install(AfterItems(V, items, j - 1), items[j])
\* index of the first item that is not "ok" (0 = none)
FirstBadFrom(V, items, i, checked) ==
  IF i > Len(items) THEN 0
  ELSE IF Status(V, items[i], checked) # "ok" THEN i
  ELSE FirstBadFrom(Install(V, items[i]), items, i + 1, checked)
FirstBad(V, items, checked) == FirstBadFrom(V, items, 1, checked)
\* a type declared again with ANOTHER arity is not judged (the kernel shadows it; refusing it would be as good): a run that reaches
\* such an item before any item that is not "ok" is recorded as a divergence, whatever it does
RECURSIVE RedeclFrom(_,_,_,_)
RedeclFrom(V, items, i, checked) ==
  IF i > Len(items) \/ Status(V, items[i], checked) # "ok" THEN FALSE
  ELSE IF IKind(items[i]) = "type" /\ IName(items[i]) \in NamesOf(V.ty) /\ ValOf(V.ty, IName(items[i])) # IArity(items[i]) THEN TRUE
  ELSE RedeclFrom(Install(V, items[i]), items, i + 1, checked)
Redeclares(V, items, checked) == RedeclFrom(V, items, 1, checked)

Core(P) == [ty |-> P.ty, co |-> P.co, ov |-> P.ov, th |-> P.th, at |-> P.at]
\* everything observable except the keys of the cache
Answers(P) == [ty |-> P.ty, co |-> P.co, ov |-> P.ov, th |-> P.th, at |-> P.at, sv |-> P.sv, hs |-> P.hs, mc |-> P.mc]

\* ---- clauses on ONE observed object ----
\* (b) the schematic form returned for a name is the schematic form of the CURRENT theorem of that name
CoherentP(P) == \A p \in P.th : Examinable(p[2]) => <<p[1], SvarS(p[2])>> \in P.sv
\* a macro with a limit is available exactly when the limit theorem is present
MacroP(P) == \A m \in P.mc : m[3] <=> (m[2] \in NamesOf(P.th))
ObjClauses(P) == (IF CoherentP(P) THEN {} ELSE {"CacheCoherent"}) \cup (IF MacroP(P) THEN {} ELSE {"MacroFollowsLimit"})
\* judged on a step: what the step BREAKS (B = the object before the step; for the new object of a copy, its original)
BrokenBy(B, A) == ObjClauses(A) \ ObjClauses(B)

\* ---- clauses on ONE step: op = [k, checked, items, name, st], B / A = the target observed before / after,               ----
\* ---- N = the new object of a copy (else A), out = "ok" | "raised", exc = class name, res = stmt returned by a query  ----
ExtClauses(B, A, items, checked, out, exc) ==
  LET n == Len(items)
      k == FirstBad(B, items, checked)
      st == IF k = 0 THEN "ok" ELSE Status(AfterItems(B, items, k - 1), items[k], checked)
      \* where a run that raises may have stopped: in front of the first item that is not "ok", or in front of an earlier item that a
      \* stricter kernel may refuse; when every item is "ok" the statement still allows raising, in front of any item
      stops == IF k = 0 THEN 0..(IF n = 0 THEN 0 ELSE n - 1)
               ELSE {k - 1} \cup { m - 1 : m \in { m \in 1..(k - 1) : Maybe(AfterItems(B, items, m - 1), items[m]) } }
  IN IF Redeclares(B, items, checked) THEN {}
     ELSE IF out = "ok"
     THEN (IF k = 0 THEN (IF A = AfterItems(B, items, n) THEN {} ELSE {"InstalledInOrder"})
           ELSE IF st = "readd" THEN {"ReaddRefused"} ELSE {})
     ELSE \* raised: exactly a prefix is installed; when the state shows that an item that re-adds a name was installed and the run went on,
          \* that is the refusal that is missing (the exception came from a later item)
          (IF \E j \in stops : A = AfterItems(B, items, j) THEN {}
           ELSE IF st = "readd" /\ \E j \in k..n : A = AfterItems(B, items, j) THEN {"ReaddRefused"} ELSE {"PrefixOnRaise"})
          \cup (IF st = "readd" /\ k = n /\ A = AfterItems(B, items, k - 1) /\ exc # "TheoryException" THEN {"RefusalIsTheoryException"} ELSE {})
ExtDiverges(B, A, items, checked, out) ==
  LET k == FirstBad(B, items, checked) IN
  Redeclares(B, items, checked) \/ (IF out = "ok" THEN k # 0 ELSE (k = 0 \/ A # AfterItems(B, items, k - 1)))
\* direct add_theorem(name, th): installs / replaces the theorem, or refuses and changes nothing
PutClauses(B, A, name, st, out) ==
  IF out = "ok" THEN (IF A = [B EXCEPT !.th = Upd(@, name, st)] THEN {} ELSE {"InstalledInOrder"})
  ELSE (IF A = B THEN {} ELSE {"PrefixOnRaise"})
\* get_theorem(name, svar=True) on the live object
QueryClauses(B, A, name, out, res) ==
  (IF Core(A) = Core(B) THEN {} ELSE {"DeterminedByExtensions"})
  \cup (IF name \in NamesOf(B.th) /\ Examinable(ValOf(B.th, name)) /\ ~(out = "ok" /\ res = SvarS(ValOf(B.th, name))) THEN {"CacheCoherent"} ELSE {})
StepClauses(op, B, A, N, out, exc, res) ==
  CASE op.k = "copy"  -> (IF Answers(A) = Answers(B) /\ A.ck = B.ck THEN {} ELSE {"CopyIsolation"})
                         \cup (IF out = "ok" /\ Answers(N) # Answers(B) THEN {"CopyEqualsOriginal"} ELSE {})
    [] op.k = "ext"   -> ExtClauses(Core(B), Core(A), op.items, op.checked, out, exc)
    [] op.k = "put"   -> PutClauses(Core(B), Core(A), op.name, op.st, out)
    [] op.k = "query" -> QueryClauses(B, A, op.name, out, res)
    [] OTHER -> {}
StepDiverges(op, B, A, N, out) ==
  CASE op.k = "ext" -> ExtDiverges(Core(B), Core(A), op.items, op.checked, out)
    [] op.k = "copy" -> out # "ok" \/ N.ck # B.ck
    [] op.k = "query" -> (out = "ok") # (op.name \in NamesOf(B.th)) \/ (out = "ok" /\ A.ck # B.ck \cup {op.name})
    [] OTHER -> FALSE

\* ---- (d) the globals theory.thy / context.ctxt: clauses on ONE step ----
\* op = [k, name, vs, how];  B / A = [thy, ctx : identities, cc : content of the context, thyd : what the global theory answers];
\* heldB / heldA = {<<identity, answers>>} of every theory seen so far, cheldB / cheldA the same for Context objects;
\* entry = what was observed when the block now left was entered, dirty = the body itself installed a theory (load_theory /
\* set_context with a name: then the theory on exit is the body's business);  want = the content asked of set_context / fresh_context;
\* canon = what the loaded theory answers in a fresh process
CtxTheoryPart(op, A, heldB, heldA, canon, hascanon, out) ==
  (IF heldB \subseteq heldA THEN {} ELSE {"CachedTheoryUntouched"})
  \cup (IF out = "ok" /\ op.name # "" /\ hascanon /\ A.thyd # canon THEN {"CachedTheoryUntouched"} ELSE {})
CtxClauses(op, B, A, heldB, heldA, cheldB, cheldA, entry, dirty, out, want, canon, hascanon) ==
  CASE op.k = "exit"   -> (IF A.cc = entry.cc THEN {} ELSE {"CtxtRestored"})
                          \cup (IF ~dirty /\ A.thy # entry.thy THEN {"ThyRestored"} ELSE {})
    [] op.k = "setctx" -> (IF out = "ok" /\ A.cc # want THEN {"SetContextReplaces"} ELSE {})
                          \cup (IF cheldB \subseteq cheldA THEN {} ELSE {"PrevContextUntouched"})
                          \cup CtxTheoryPart(op, A, heldB, heldA, canon, hascanon, out)
    [] op.k = "load"   -> CtxTheoryPart(op, A, heldB, heldA, canon, hascanon, out)
    [] OTHER -> {}
CtxDiverges(op, B, A, cheldB, cheldA, entry, dirty, out, want) ==
  CASE op.k = "enter"  -> out # "ok" \/ A.cc # want \/ ~(cheldB \subseteq cheldA)
    [] op.k = "exit"   -> dirty /\ A.thy # entry.thy
    [] op.k = "setctx" -> out = "ok" /\ op.name = "" /\ A.thy # B.thy
    [] op.k \in {"cacheload", "touch"} -> A.thy # B.thy \/ A.thyd # B.thyd \/ A.cc # B.cc
    [] OTHER -> FALSE
=============================================================================
