------------------------------- MODULE C02_Ref -------------------------------
(* Definitions shared by the C02 specifications (no constants, no variables).            *)
(*                                                                                       *)
(* Language.  prop    : <<"at",n>> (variable n) | <<"sv",n>> (schematic n) | <<"imp",p,q>> *)
(*                      | <<"eq",p,q>> (equality of propositions)                          *)
(*                      | <<"other",s>> (anything else the code may produce)              *)
(*            sequent : [h |-> set of props, c |-> prop];  "absent" = NoneS               *)
(*            item    : [id, rule, ak, arg, at, prevs, th, sub, alias]                     *)
(*                      id, prevs[k] : tuples of ints;                                     *)
(*                      ak : KIND of the argument object handed to the rule -- "none",     *)
(*                      "term" (arg), "thm" (at: a made-up, unverified sequent), "type",   *)
(*                      "inst" (empty instantiation), "tyinst", "tuple", "name" (arg);     *)
(*                      alias : position of the item whose OBJECT this one is (<<>> = its  *)
(*                      own object): the same ProofItem may sit at several positions       *)
(*            position: tuple of 0-based indices (where the item really is)               *)
(*                                                                                       *)
(* RefCheck is the INTENDED meaning of check_proof and is deliberately blind to           *)
(* identifiers and to the *names* in citation lists: an item with k citations is          *)
(* justified iff SOME k sequents verified earlier and visible from its position make its  *)
(* rule yield a sequent that can_prove the stated one.  It is therefore never stricter    *)
(* than the property ("whatever identifiers the steps carry").  Every POSITION is a step   *)
(* of its own (object sharing between positions is invisible to it), and an argument that  *)
(* is not of the kind the rule's signature (kernel/thm.py primitive_deriv) asks for         *)
(* justifies nothing: only cited, verified steps are premises.                             *)
EXTENDS Integers, Sequences, FiniteSets, TLC

atA == <<"at", "A">>
atB == <<"at", "B">>
svA == <<"sv", "A">>
svB == <<"sv", "B">>
NoneP == <<"none">>
Imp(p, q) == <<"imp", p, q>>
IsImp(p) == p[1] = "imp"
Eq(p, q) == <<"eq", p, q>>
IsEq(p) == p[1] = "eq"
Sq(H, c) == [h |-> H, c |-> c]
NoneS == Sq({}, NoneP)
IsNone(s) == s.c = NoneP
CanProve(r, s) == r.c = s.c /\ r.h \subseteq s.h                 \* Thm.can_prove
T1 == Sq({}, Imp(svA, svA))                                      \* the registered theorem, as get_theorem returns it
ThmName(arg) == arg[2]

\* ------------------------------------------------------------------ semantics (for RefSound)
AtomsU == {atA, atB, svA, svB}
RECURSIVE Eval(_, _)
Eval(p, v) == IF IsImp(p) THEN (Eval(p[2], v) => Eval(p[3], v))
              ELSE IF IsEq(p) THEN (Eval(p[2], v) <=> Eval(p[3], v)) ELSE v[p]
Valid(s) == \A v \in [AtomsU -> BOOLEAN] : (\A x \in s.h : Eval(x, v)) => Eval(s.c, v)

\* ------------------------------------------------------------------ rules
\* kind of argument each rule takes (kernel/thm.py primitive_deriv; `theorem` takes a name, the gap macro a term)
Sig(rule) == CASE rule \in {"assume", "implies_intr", "reflexive", "beta_conv", "abstraction", "forall_intr", "forall_elim", "verif_gap1"} -> "term"
               [] rule = "substitution" -> "inst"
               [] rule = "subst_type" -> "tyinst"
               [] rule = "theorem" -> "name"
               [] OTHER -> "none"
\* primitive rules whose results are outside the small language: when argument kind and number of premises fit,
\* the oracle does not decide (the object is not examined); when they do not fit, nothing is justified
Unmodelled == {"combination", "beta_conv", "abstraction", "forall_intr", "forall_elim"}
PremCount(rule) == CASE rule \in {"combination"} -> 2 [] rule = "beta_conv" -> 0 [] OTHER -> 1
\* rules that ignore whatever argument they are given
ArgIgnored == {"", "sorry", "subproof", "verif_id0"}
ArgFits(it) == it.rule \in ArgIgnored \/ it.ak = Sig(it.rule)
\* the set of possible results (empty = the rule does not apply); arg is only looked at when its kind fits
Apply(rule, arg, prems) ==
  CASE rule = "assume" /\ Len(prems) = 0 -> { Sq({arg}, arg) }
    [] rule = "implies_intr" /\ Len(prems) = 1 -> { Sq(prems[1].h \ {arg}, Imp(arg, prems[1].c)) }
    [] rule = "implies_elim" /\ Len(prems) = 2 ->
          IF IsImp(prems[1].c) /\ prems[1].c[2] = prems[2].c
          THEN { Sq(prems[1].h \cup prems[2].h, prems[1].c[3]) } ELSE {}
    [] rule \in {"substitution", "subst_type", "verif_id0"} /\ Len(prems) = 1 -> { prems[1] }   \* empty instantiation / trusted identity macro
    [] rule = "theorem" /\ Len(prems) = 0 -> IF ThmName(arg) = "T1" THEN { T1 } ELSE {}
    [] rule = "reflexive" /\ Len(prems) = 0 -> { Sq({}, Eq(arg, arg)) }
    [] rule = "symmetric" /\ Len(prems) = 1 ->
          IF IsEq(prems[1].c) THEN { Sq(prems[1].h, Eq(prems[1].c[3], prems[1].c[2])) } ELSE {}
    [] rule = "transitive" /\ Len(prems) = 2 ->
          IF IsEq(prems[1].c) /\ IsEq(prems[2].c) /\ prems[1].c[3] = prems[2].c[2]
          THEN { Sq(prems[1].h \cup prems[2].h, Eq(prems[1].c[2], prems[2].c[3])) } ELSE {}
    [] rule = "equal_intr" /\ Len(prems) = 2 ->
          IF IsImp(prems[1].c) /\ IsImp(prems[2].c) /\ prems[1].c[2] = prems[2].c[3] /\ prems[1].c[3] = prems[2].c[2]
          THEN { Sq(prems[1].h \cup prems[2].h, Eq(prems[1].c[2], prems[1].c[3])) } ELSE {}
    [] rule = "equal_elim" /\ Len(prems) = 2 ->
          IF IsEq(prems[1].c) /\ prems[1].c[2] = prems[2].c
          THEN { Sq(prems[1].h \cup prems[2].h, prems[1].c[3]) } ELSE {}
    [] OTHER -> {}
\* number of cited premises the rule consumes (theorem ignores its citation list)
NPrev(it) == IF it.rule = "theorem" THEN 0 ELSE Len(it.prevs)

\* q is an earlier sibling of p or of an ancestor of p
Visible(p, q) == /\ Len(q) >= 1 /\ Len(q) <= Len(p)
                 /\ SubSeq(q, 1, Len(q) - 1) = SubSeq(p, 1, Len(q) - 1)
                 /\ q[Len(q)] < p[Len(q)]
Tuples(S, n) == IF n = 0 THEN { <<>> } ELSE IF n = 1 THEN { <<x>> : x \in S }
                ELSE IF n = 2 THEN { <<x, y>> : x \in S, y \in S } ELSE {}
BigCap == 48      \* more visible verified sequents than this: the object is not examined

\* ------------------------------------------------------------------ the oracle
\* result: [ok, big, V (set of <<position, sequent>>: everything verified so far), gaps (sequence of sequents)]
Res(ok, big, V, gaps) == [ok |-> ok, big |-> big, V |-> V, gaps |-> gaps]
At(V, pos) == { v[2] : v \in { v \in V : v[1] = pos } }
RECURSIVE CheckSeq(_, _, _, _, _)
CheckItem(it, pos, V, nogaps) ==
  IF it.rule = "" THEN Res(TRUE, FALSE, V, <<>>)                       \* empty line: nothing is verified by it
  ELSE IF it.rule = "sorry" THEN
       IF nogaps \/ IsNone(it.th) THEN Res(FALSE, FALSE, V, <<>>)
       ELSE Res(TRUE, FALSE, V \cup {<<pos, it.th>>}, <<it.th>>)
  ELSE IF it.rule = "verif_gap1" THEN                                  \* macro whose expansion is one placeholder |- arg
       LET s == Sq({}, it.arg) IN
       IF nogaps \/ ~ArgFits(it) \/ (~IsNone(it.th) /\ ~CanProve(s, it.th)) THEN Res(FALSE, FALSE, V, <<>>)
       ELSE Res(TRUE, FALSE, V \cup {<<pos, IF IsNone(it.th) THEN s ELSE it.th>>}, <<s>>)
  ELSE IF it.rule = "subproof" THEN
       IF Len(it.sub) = 0 THEN Res(FALSE, FALSE, V, <<>>)
       ELSE LET r == CheckSeq(it.sub, pos, 1, V, nogaps) IN
            IF ~r.ok THEN Res(FALSE, r.big, V, <<>>)
            ELSE LET outs == At(r.V, Append(pos, Len(it.sub) - 1))
                     good == IF IsNone(it.th) THEN outs ELSE { o \in outs : CanProve(o, it.th) } IN
                 IF good = {} THEN Res(FALSE, FALSE, V, <<>>)
                 ELSE Res(TRUE, FALSE, r.V \cup (IF IsNone(it.th) THEN { <<pos, o>> : o \in good } ELSE {<<pos, it.th>>}), r.gaps)
  ELSE IF ~ArgFits(it) THEN Res(FALSE, FALSE, V, <<>>)                 \* an argument outside the signature justifies nothing
  ELSE IF it.rule \in Unmodelled THEN Res(FALSE, NPrev(it) = PremCount(it.rule), V, <<>>)
  ELSE LET cand == { v[2] : v \in { v \in V : Visible(pos, v[1]) } } IN
       IF Cardinality(cand) > BigCap THEN Res(FALSE, TRUE, V, <<>>)
       ELSE LET outs == UNION { Apply(it.rule, it.arg, ps) : ps \in Tuples(cand, NPrev(it)) }
                good == IF IsNone(it.th) THEN outs ELSE { o \in outs : CanProve(o, it.th) } IN
            IF good = {} THEN Res(FALSE, FALSE, V, <<>>)
            ELSE Res(TRUE, FALSE, V \cup (IF IsNone(it.th) THEN { <<pos, o>> : o \in good } ELSE {<<pos, it.th>>}), <<>>)
CheckSeq(items, prefix, k, V, nogaps) ==
  IF k > Len(items) THEN Res(TRUE, FALSE, V, <<>>)
  ELSE LET r == CheckItem(items[k], Append(prefix, k - 1), V, nogaps) IN
       IF ~r.ok THEN r
       ELSE LET rest == CheckSeq(items, prefix, k + 1, r.V, nogaps) IN
            Res(rest.ok, rest.big, rest.V, r.gaps \o rest.gaps)
RefCheck(prf, nogaps) == CheckSeq(prf, <<>>, 1, {}, nogaps)
\* the sequents a justified proof may conclude
Finals(r, prf) == IF Len(prf) = 0 THEN {} ELSE At(r.V, <<Len(prf) - 1>>)

\* ------------------------------------------------------------------ placeholders (syntactic)
RECURSIVE Placeholders(_)
Placeholders(items) ==
  IF Len(items) = 0 THEN <<>>
  ELSE LET it == items[1]
           here == CASE it.rule = "sorry" -> <<it.th>>
                     [] it.rule = "verif_gap1" /\ ArgFits(it) -> << Sq({}, it.arg) >>
                     [] it.rule = "subproof" -> Placeholders(it.sub)
                     [] OTHER -> <<>> IN
       here \o Placeholders(Tail(items))
Count(s, x) == Cardinality({ i \in 1..Len(s) : s[i] = x })
BagEq(s1, s2) == Len(s1) = Len(s2) /\ \A i \in 1..Len(s1) : Count(s1, s1[i]) = Count(s2, s1[i])

\* ------------------------------------------------------------------ structure helpers
\* Python list indexing: negative indices count from the end; -1 = IndexError
PyIndex(n, i, negok) == IF i >= 0 THEN (IF i < n THEN i ELSE -1)
                        ELSE IF negok /\ i + n >= 0 THEN i + n ELSE -1
ErrPos == <<-1>>
\* Proof.find_item: the POSITION reached by walking the identifier, or ErrPos (ProofStateException)
RECURSIVE FindIn(_, _, _, _, _)
FindIn(items, id, k, acc, negok) ==
  LET j == PyIndex(Len(items), id[k], negok) IN
  IF j < 0 THEN ErrPos
  ELSE IF k = Len(id) THEN Append(acc, j)
  ELSE IF items[j + 1].rule # "subproof" THEN ErrPos                  \* item.subproof is None
  ELSE FindIn(items[j + 1].sub, id, k + 1, Append(acc, j), negok)
FindPos(prf, id, negok) == IF Len(id) = 0 THEN ErrPos ELSE FindIn(prf, id, 1, <<>>, negok)
RECURSIVE ItemAtR(_, _, _)
ItemAtR(items, pos, k) == IF k = Len(pos) THEN items[pos[k] + 1] ELSE ItemAtR(items[pos[k] + 1].sub, pos, k + 1)
ItemAt(prf, pos) == ItemAtR(prf, pos, 1)
RECURSIVE AllPosR(_, _)
AllPosR(items, prefix) ==
  UNION { {Append(prefix, i - 1)} \cup (IF items[i].rule = "subproof" THEN AllPosR(items[i].sub, Append(prefix, i - 1)) ELSE {})
          : i \in 1..Len(items) }
AllPos(prf) == AllPosR(prf, <<>>)
=============================================================================
