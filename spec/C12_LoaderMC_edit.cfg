SPECIFICATION Spec
CONSTANTS
  Theories <- eTheories
  Imports <- eImports
  Modules = {}
  LazyImport <- eLazy
  ModuleBody <- eBody
  OpTheories <- eTheories
  OpModules = {}
  Present0 <- eTheories
  Origin <- eOrigin
  Items0 <- eItems0
  LimitsOf <- eLimits
  FileOps <- eFileOps
  Variants <- eVariants
  GoodVariants <- Fixed
  PrintGood = FALSE
  MaxOps = 3
  MaxDepth = 40
  AllowFault = FALSE
  defaultInitValue = defaultInitValue
INVARIANT Good
CHECK_DEADLOCK FALSE
