----------------------------- MODULE C15_Tseitin -----------------------------
(* S-specification for C15, Tseitin part: the reference encoding as a machine.                   *)
(*   input space : every propositional formula over Atoms with <= FullConn connectives, and every *)
(*                 such formula with <= MaxConn connectives whose atoms occur in first-occurrence *)
(*                 order a, b, c (one representative per renaming of the atoms); and the family   *)
(*                 Repeats of formulas with a repeated sub-formula (X op X in every small context) *)
(*   state       : f, phase, enc (reference encoding: definitions x_i <-> .., clauses)            *)
(*   action      : Encode                                                                         *)
(*   properties  : RefTheoremValid   defs, f |- conjunction of the clauses   (the shape of the     *)
(*                                   theorem that tseitin.encode returns)                          *)
(*                 RefEquisat        the clauses are satisfiable iff f is                           *)
(*                 RefDefinitional   every definition introduces a fresh variable                   *)
(* The formulas are written as vectors (POSTCONDITION Emit) and replayed into prover/tseitin.py.  *)
EXTENDS C15_Prop, SequencesExt, Json, IOUtils

CONSTANTS Atoms, FullConn, MaxConn,
          RepFull     \* repeated-sub-formula family: contexts on both sides and with both atoms (FALSE: one side, atom a)

RECURSIVE F(_)
\* all formulas with exactly n connectives
F(n) == IF n = 0 THEN { <<"atom", a>> : a \in Atoms }
        ELSE { <<"not", g>> : g \in F(n - 1) }
             \cup UNION { UNION { { <<op, g, h>> : g \in F(i), h \in F(n - 1 - i) } : op \in BinOps } : i \in 0..(n - 1) }
\* atoms in left-to-right order
RECURSIVE AtomSeq(_)
AtomSeq(f) == CASE f[1] = "atom" -> <<f[2]>>
                [] f[1] = "not" -> AtomSeq(f[2])
                [] OTHER -> AtomSeq(f[2]) \o AtomSeq(f[3])
AtomOrder == SetToSortSeq(Atoms, LAMBDA x, y : \E i, j \in 1..3 : <<"a", "b", "c">>[i] = x /\ <<"a", "b", "c">>[j] = y /\ i < j)
Canon(f) == LET s == AtomSeq(f) IN
            \A i \in 1..Len(s) : \A k \in 2..Len(AtomOrder) :
               s[i] = AtomOrder[k] => \E j \in 1..(i - 1) : s[j] = AtomOrder[k - 1]
\* ---- formulas with a REPEATED sub-formula: X op X for every connective (X an atom, a negation, a compound), nested in
\* every context of 0, 1 or 2 connectives (negation; conjunction, disjunction, implication either way, equivalence with an
\* atom).  These are exactly the inputs whose Tseitin clauses contain repeated literals (x <-> y & y gives ~y | ~y | x)
\* or complementary ones (x <-> (y --> y) gives ~x | ~y | y).
vA == <<"atom", "a">>
vB == <<"atom", "b">>
RepXs == { vA, <<"not", vA>>, <<"and", vA, vB>> }
Rep0 == { <<op, X, X>> : op \in BinOps, X \in RepXs }
CtxAtoms == IF RepFull THEN { vA, vB } ELSE { vA }
Ctx(S) == { <<"not", x>> : x \in S }
          \cup { <<op, x, y>> : op \in BinOps, x \in S, y \in CtxAtoms }
          \cup { <<op, y, x>> : op \in (IF RepFull THEN BinOps ELSE {"imp"}), x \in S, y \in CtxAtoms }
Repeats == Rep0 \cup Ctx(Rep0) \cup Ctx(Ctx(Rep0))
Formulas == UNION { F(n) : n \in 0..FullConn } \cup UNION { { f \in F(n) : Canon(f) } : n \in (FullConn + 1)..MaxConn } \cup Repeats

VARIABLES f, phase, enc
vars == <<f, phase, enc>>
NoEnc == [subs |-> <<>>, defs |-> <<>>, cnf |-> <<>>]
Init == f \in Formulas /\ phase = "formula" /\ enc = NoEnc
Encode == phase = "formula" /\ enc' = RefEncode(f) /\ phase' = "encoded" /\ UNCHANGED f
Next == Encode
Spec == Init /\ [][Next]_vars

RECURSIVE Disj(_, _)
Disj(c, i) == IF i > Len(c) THEN <<"false">>
              ELSE <<"or", IF c[i][2] THEN <<"atom", c[i][1]>> ELSE <<"not", <<"atom", c[i][1]>> >>, Disj(c, i + 1)>>
RECURSIVE Conj(_, _)
Conj(cnf, k) == IF k > Len(cnf) THEN <<"true">> ELSE <<"and", Disj(cnf[k], 1), Conj(cnf, k + 1)>>
RefTheoremValid == phase = "encoded" => SeqValid(Append(enc.defs, f), Conj(enc.cnf, 1))
RefEquisat == phase = "encoded" => Equisatisfiable(enc.cnf, f)
RefDefinitional == phase = "encoded" =>
   /\ Len(enc.defs) = Len(enc.subs) /\ enc.subs[Len(enc.subs)] = f
   /\ \A i \in 1..Len(enc.defs) : \A x \in AtomsOf(enc.defs[i][3]) : x \in AtomsOf(f) \/ \E j \in 1..(i - 1) : x = XName(j)

Emit == LET u == SetToSeq(Formulas) IN
        /\ TLCGet("distinct") >= Len(u)
        /\ ndJsonSerialize(IOEnv.VECTOR_FILE, [i \in 1..Len(u) |-> [formula |-> u[i], rep |-> (u[i] \in Repeats)]])
        /\ PrintT(<<"vectors", Len(u)>>)
=============================================================================
