----------------------------- MODULE C15_Tseitin -----------------------------
(* S-specification for C15, Tseitin part: the reference encoding as a machine.                   *)
(*   input space : every propositional formula over Atoms with <= FullConn connectives, and every *)
(*                 such formula with <= MaxConn connectives whose atoms occur in first-occurrence *)
(*                 order a, b, c (one representative per renaming of the atoms); and the family   *)
(*                 Repeats of formulas with a repeated sub-formula (X op X in every small context); *)
(*                 the ATOM NAME SPACE as a dimension: the family Clash of every formula with <=     *)
(*                 ClashConn connectives over ClashAtoms \cup XAtoms that mentions an atom whose name *)
(*                 belongs to the encoder's fresh-name scheme (XAtoms: "x1", "x2", ...); and the      *)
(*                 family ConstF of every formula with <= ConstConn connectives over ConstAtoms and   *)
(*                 the constants true / false as leaves that mentions a constant                      *)
(*   state       : f, phase, enc (reference encoding: definitions x_i <-> .., clauses)            *)
(*   action      : Encode                                                                         *)
(*   properties  : RefTheoremValid   defs, f |- conjunction of the clauses   (the shape of the     *)
(*                                   theorem that tseitin.encode returns)                          *)
(*                 RefEquisat        the clauses are satisfiable iff f is                           *)
(*                 RefTopIsVariable  f rewritten with the definitions is the variable of f              *)
(*                 RefDefinitional   the definitions are DefsFresh: equations v <-> rhs, the v's pairwise    *)
(*                                   distinct, not in f, not circular                                 *)
(*                 RefConservative   ... hence every model of f extends to a model of the definitions *)
(* The formulas are written as vectors (POSTCONDITION Emit) and replayed into prover/tseitin.py.  *)
EXTENDS C15_Prop, SequencesExt, Json, IOUtils

CONSTANTS Atoms, FullConn, MaxConn,
          RepFull,    \* repeated-sub-formula family: contexts on both sides and with both atoms (FALSE: one side, atom a)
          ClashAtoms, XAtoms, ClashConn,    \* name-space family: ordinary names, names of the fresh-name scheme, size bound
          ConstAtoms, ConstConn,            \* constants family: atoms next to the leaves true / false, size bound
          WithConsts                        \* FALSE: no constants family

\* all formulas with exactly n connectives over the leaves L
RECURSIVE FL(_, _)
FL(n, L) == IF n = 0 THEN L
            ELSE { <<"not", g>> : g \in FL(n - 1, L) }
                 \cup UNION { UNION { { <<op, g, h>> : g \in FL(i, L), h \in FL(n - 1 - i, L) } : op \in BinOps } : i \in 0..(n - 1) }
Leaves(A) == { <<"atom", a>> : a \in A }
F(n) == FL(n, Leaves(Atoms))
\* atoms in left-to-right order
RECURSIVE AtomSeq(_)
AtomSeq(f) == CASE f[1] = "atom" -> <<f[2]>>
                [] f[1] = "not" -> AtomSeq(f[2])
                [] OTHER -> AtomSeq(f[2]) \o AtomSeq(f[3])
AtomOrder == SetToSortSeq(Atoms, LAMBDA x, y : \E i, j \in 1..3 : <<"a", "b", "c">>[i] = x /\ <<"a", "b", "c">>[j] = y /\ i < j)
Canon(f) == LET s == AtomSeq(f) IN
            \A i \in 1..Len(s) : \A k \in 2..Len(AtomOrder) :
               s[i] = AtomOrder[k] => \E j \in 1..(i - 1) : s[j] = AtomOrder[k - 1]
\* ---- formulas with a REPEATED sub-formula: X op X for every connective (X an atom, a negation, a compound), nested in
\* every context of 0, 1 or 2 connectives (negation; conjunction, disjunction, implication either way, equivalence with an
\* atom).  These are exactly the inputs whose Tseitin clauses contain repeated literals (x <-> y & y gives ~y | ~y | x)
\* or complementary ones (x <-> (y --> y) gives ~x | ~y | y).
vA == <<"atom", "a">>
vB == <<"atom", "b">>
RepXs == { vA, <<"not", vA>>, <<"and", vA, vB>> }
Rep0 == { <<op, X, X>> : op \in BinOps, X \in RepXs }
CtxAtoms == IF RepFull THEN { vA, vB } ELSE { vA }
Ctx(S) == { <<"not", x>> : x \in S }
          \cup { <<op, x, y>> : op \in BinOps, x \in S, y \in CtxAtoms }
          \cup { <<op, y, x>> : op \in (IF RepFull THEN BinOps ELSE {"imp"}), x \in S, y \in CtxAtoms }
Repeats == Rep0 \cup Ctx(Rep0) \cup Ctx(Ctx(Rep0))
NoFormulas == {}        \* (C15_Tseitin_clash.cfg, the scope of the naming mutant, leaves the family Repeats out: Repeats <- NoFormulas)
\* ---- the atom name space: atoms that carry a name of the encoder's own scheme x1, x2, ... next to ordinary ones
Clash == { g \in UNION { FL(n, Leaves(ClashAtoms \cup XAtoms)) : n \in 0..ClashConn } : AtomsOf(g) \cap XAtoms # {} }
\* ---- the constants true / false as leaves
RECURSIVE HasConst(_)
HasConst(g) == CASE g[1] = "not" -> HasConst(g[2])
                 [] g[1] \in BinOps -> HasConst(g[2]) \/ HasConst(g[3])
                 [] OTHER -> g[1] \in {"true", "false"}
ConstF == IF WithConsts
          THEN { g \in UNION { FL(n, Leaves(ConstAtoms) \cup { <<"true">>, <<"false">> }) : n \in 0..ConstConn } : HasConst(g) }
          ELSE {}
Formulas == UNION { F(n) : n \in 0..FullConn } \cup UNION { { g \in F(n) : Canon(g) } : n \in (FullConn + 1)..MaxConn } \cup Repeats
            \cup Clash \cup ConstF

VARIABLES f, phase, enc
vars == <<f, phase, enc>>
NoEnc == [subs |-> <<>>, names |-> <<>>, defs |-> <<>>, top |-> <<"none">>, cnf |-> <<>>]
Init == f \in Formulas /\ phase = "formula" /\ enc = NoEnc
Encode == phase = "formula" /\ enc' = RefEncode(f) /\ phase' = "encoded" /\ UNCHANGED f
Next == Encode
Spec == Init /\ [][Next]_vars

RECURSIVE Disj(_, _)
Disj(c, i) == IF i > Len(c) THEN <<"false">>
              ELSE <<"or", IF c[i][2] THEN <<"atom", c[i][1]>> ELSE <<"not", <<"atom", c[i][1]>> >>, Disj(c, i + 1)>>
RECURSIVE Conj(_, _)
Conj(cnf, k) == IF k > Len(cnf) THEN <<"true">> ELSE <<"and", Disj(cnf[k], 1), Conj(cnf, k + 1)>>
RefTheoremValid == phase = "encoded" => SeqValid(Append(enc.defs, f), Conj(enc.cnf, 1))
RefEquisat == phase = "encoded" => Equisatisfiable(enc.cnf, f)
\* rewriting f with the definitions leaves the variable of f: the unit clause of the encoding
RefTopIsVariable == phase = "encoded" => SameF(enc.top, <<"atom", enc.names[Len(enc.names)]>>)
RefDefinitional == phase = "encoded" =>
   /\ Len(enc.defs) = Len(enc.subs) /\ enc.subs[Len(enc.subs)] = f
   /\ DefsFresh(enc.defs, f)
   /\ \A i \in 1..Len(enc.defs) : \A x \in AtomsOf(enc.defs[i][3]) : x \in AtomsOf(f) \/ \E j \in 1..(i - 1) : x = enc.names[j]
\* what the definitional reading is for (brute force over the assignments; formulas with <= 2 connectives: all of the
\* enumeration and of the name-space and constants families, the small members of Repeats)
RefConservative == phase = "encoded" /\ NConn(f) <= 2 => Conservative(enc.defs, f)

Emit == LET u == SetToSeq(Formulas) IN
        /\ TLCGet("distinct") >= Len(u)
        /\ ndJsonSerialize(IOEnv.VECTOR_FILE, [i \in 1..Len(u) |-> [formula |-> u[i], rep |-> (u[i] \in Repeats),
                                                                        fam |-> IF u[i] \in Clash THEN "clash" ELSE IF u[i] \in ConstF THEN "const"
                                                                                ELSE IF u[i] \in Repeats THEN "rep" ELSE "enum"]])
        /\ PrintT(<<"vectors", Len(u)>>)
=============================================================================
