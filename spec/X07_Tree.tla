------------------------------ MODULE X07_Tree ------------------------------
(* Constant-level vocabulary shared by the S specification X07_CompFile and the T specification X07_Trace:           *)
(* the tree of ONE item of a computation file (integral/compstate.py) as the set of its nodes, every node keyed by    *)
(* the label that reaches it by walking the tree (compstate.Label.data, 0-based):                                      *)
(*    <<>>            the item itself: a FuncDef ("def"), a Goal ("goal") or a Calculation ("calc", k = its k-th step)  *)
(*    goal with a CalculationProof (pk = 1):  L.0 / L.1 = lhs / rhs Calculation ("calc"), L.c.k = its k-th step        *)
(*    goal with an InductionProof (pk = 2) / CaseProof (pk = 3):  L.0 / L.1 = base, induct / case_1, case_2 Goal       *)
(*    goal with a RewriteGoalProof (pk = 4):  L.0 = the proof with its `begin` Calculation ("rw"), L.0.k = k-th step  *)
(* (a CalculationProof / InductionProof / CaseProof object has no label of its own: the label of its goal is the goal) *)
(* node = [lab, k, e, l, r, pd, pk, cs, x, y]                                                                          *)
(*   e   def / goal: the statement; calc / rw: start; step: result        (expressions are numbers: interned)          *)
(*   l r pd   goal / def: the two sides and the top operator of the statement (0, 0, "" when it is not a binary op)     *)
(*   pk  goal: proof kind 0 (none) .. 4;  cs  goal / def / rw: conditions;                                              *)
(*   x   goal pk = 2: induction variable, pk = 3: split condition; step: rule;   y  goal pk = 2: start; step: its id    *)
EXTENDS Naturals, Sequences, FiniteSets
N(lab, k, e, l, r, pd, pk, cs, x, y) ==
  [lab |-> lab, k |-> k, e |-> e, l |-> l, r |-> r, pd |-> pd, pk |-> pk, cs |-> cs, x |-> x, y |-> y]
Core(n) == N(n.lab, n.k, n.e, n.l, n.r, n.pd, n.pk, n.cs, n.x, n.y)
CoreT(T) == { Core(n) : n \in T }
SeqToSet(s) == { s[i] : i \in 1..Len(s) }
IsPrefix(a, b) == Len(a) <= Len(b) /\ SubSeq(b, 1, Len(a)) = a
Front(s) == SubSeq(s, 1, Len(s) - 1)
LastOf(s) == s[Len(s)]
Labels(T) == { n.lab : n \in T }
Has(T, lab) == lab \in Labels(T)
At(T, lab) == CHOOSE n \in T : n.lab = lab
Under(T, lab) == { n \in T : IsPrefix(lab, n.lab) }
Below(T, lab) == { n \in T : IsPrefix(lab, n.lab) /\ n.lab # lab }
Goals(T) == { n \in T : n.k = "goal" }
StepsOf(T, c) == { n \in T : n.k = "step" /\ Len(n.lab) = Len(c) + 1 /\ IsPrefix(c, n.lab) }
NSteps(T, c) == Cardinality(StepsOf(T, c))
\* last expression of a calculation: the result of its last step, its start when it has none
LastExpr(T, c) == IF StepsOf(T, c) = {} THEN At(T, c).e
                  ELSE (CHOOSE n \in StepsOf(T, c) : \A m \in StepsOf(T, c) : LastOf(m.lab) <= LastOf(n.lab)).e
Calc(lab, start) == N(lab, "calc", start, 0, 0, "", 0, <<>>, 0, 0)
StepN(c, k, rule, res) == N(Append(c, k), "step", res, 0, 0, "", 0, <<>>, rule, k)
\* ---- shape: what a walk of a well-formed item looks like
Shape(T) ==
  /\ Has(T, <<>>) /\ At(T, <<>>).k \in {"def", "goal", "calc"} /\ Cardinality(Labels(T)) = Cardinality(T)
  /\ \A n \in T :
       CASE n.k = "def" -> T = {n}
         [] n.k = "goal" ->
              LET kids == { m \in T : Len(m.lab) = Len(n.lab) + 1 /\ IsPrefix(n.lab, m.lab) } IN
              CASE n.pk = 0 -> kids = {}
                [] n.pk = 1 -> { <<m.lab, m.k>> : m \in kids } = { <<Append(n.lab, 0), "calc">>, <<Append(n.lab, 1), "calc">> }
                [] n.pk \in {2, 3} -> { <<m.lab, m.k>> : m \in kids } = { <<Append(n.lab, 0), "goal">>, <<Append(n.lab, 1), "goal">> }
                [] n.pk = 4 -> { <<m.lab, m.k>> : m \in kids } = { <<Append(n.lab, 0), "rw">> }
                [] OTHER -> FALSE
         [] n.k \in {"calc", "rw"} -> \A m \in Below(T, n.lab) : m \in StepsOf(T, n.lab)
         [] n.k = "step" -> /\ Len(n.lab) >= 1 /\ Has(T, Front(n.lab)) /\ At(T, Front(n.lab)).k \in {"calc", "rw"}
                            /\ (LastOf(n.lab) > 0 => Has(T, Append(Front(n.lab), LastOf(n.lab) - 1)))
         [] OTHER -> FALSE
\* CalculationStep.id is the position of the step (perform_rule / clear of a step rely on it)
StepIdsArePositions(T) == \A n \in T : n.k = "step" => n.y = LastOf(n.lab)
\* ---- (a) labels.  A resolution is <<"node", label>>, <<"own", <<>>>> (the module's own error: AssertionError) or
\*      <<"foreign", <<>>>> (any other exception)
Ok(lab) == <<"node", lab>>
Err(kind) == <<kind, <<>> >>
\* reference: exactly the labels produced by walking the tree address a node, everything else is the module's own error
RefResolve(T, lab) == IF Has(T, lab) THEN Ok(lab) ELSE Err("own")
\* get_by_label as coded (Goal / FuncDef / CalculationProof / Calculation / InductionProof / CaseProof / RewriteGoalProof),
\* started at the goal (or definition) `base` with the rest of the label
RECURSIVE CodeResolve(_, _, _)
CodeResolve(T, base, rest) ==
  LET g == At(T, base) IN
  IF rest = <<>> THEN Ok(base)
  ELSE IF g.k = "calc" THEN (IF Len(rest) > 1 THEN Err("own") ELSE IF Has(T, Append(base, rest[1])) THEN Ok(Append(base, rest[1])) ELSE Err("foreign"))
  ELSE IF g.k = "def" \/ g.pk = 0 THEN Err("own")
  ELSE IF g.pk = 1 THEN
         IF rest[1] > 1 THEN Err("own")
         ELSE LET c == Append(base, rest[1]) IN
              IF Len(rest) = 1 THEN Ok(c)
              ELSE IF Len(rest) = 2 THEN (IF Has(T, Append(c, rest[2])) THEN Ok(Append(c, rest[2])) ELSE Err("foreign"))  \* self.steps[label.head]
              ELSE Err("own")
  ELSE IF g.pk \in {2, 3} THEN (IF rest[1] > 1 THEN Err("own") ELSE CodeResolve(T, Append(base, rest[1]), Tail(rest)))
  ELSE \* RewriteGoalProof: `if label.empty() or len(label.data) == 1: return self / elif not label.tail.empty(): return self.begin.steps[label.tail.head]`
       IF Len(rest) = 1 THEN Ok(Append(base, 0))
       ELSE (IF Has(T, base \o <<0, rest[2]>>) THEN Ok(base \o <<0, rest[2]>>) ELSE Err("foreign"))
\* ---- (b) edits
\* Calculation.perform_rule(rule, id) where eval succeeded with `res`: steps 0..id are kept, later ones dropped, one step appended
TruncTo(T, c, id) == T \ { m \in StepsOf(T, c) : LastOf(m.lab) > id }        \* id = -1 is written 0 with keep = FALSE
Truncated(T, c, keep, id) == IF keep THEN TruncTo(T, c, id) ELSE T \ StepsOf(T, c)
Performed(T, c, keep, id, rule, res) == Truncated(T, c, keep, id) \cup { StepN(c, IF keep THEN id + 1 ELSE 0, rule, res) }
PerformInput(T, c, keep, id) == IF keep THEN At(T, Append(c, id)).e ELSE At(T, c).e
\* clear() of the node at lab
Cleared(T, lab) ==
  LET n == At(T, lab) IN
  CASE n.k = "goal" -> (T \ Under(T, lab)) \cup { [n EXCEPT !.pk = 0, !.x = 0, !.y = 0] }
    [] n.k \in {"calc", "rw"} -> T \ Below(T, lab)
    [] n.k = "step" -> T \ { m \in StepsOf(T, Front(lab)) : LastOf(m.lab) >= LastOf(lab) }
    [] OTHER -> T
\* goal.proof.clear() for the goal at lab (pk # 0)
ProofCleared(T, lab) ==
  LET n == At(T, lab) IN
  IF n.pk \in {1, 4} THEN T \ { m \in Below(T, lab) : m.k = "step" }
  ELSE Cleared(Cleared(T, Append(lab, 0)), Append(lab, 1))
NoProof(T, lab) == LET n == At(T, lab) IN (T \ Under(T, lab))
ByCalc(T, lab) == LET n == At(T, lab) IN
  NoProof(T, lab) \cup { [n EXCEPT !.pk = 1, !.x = 0, !.y = 0], Calc(Append(lab, 0), n.l), Calc(Append(lab, 1), n.r) }
\* b, i : the statements <<e, l, r, pd>> of the two sub-goals (the code computes them by substitution and normalisation: a black box)
SubGoal(lab, st, cs) == N(lab, "goal", st[1], st[2], st[3], st[4], 0, cs, 0, 0)
ByInduction(T, lab, var, start, b, i) == LET n == At(T, lab) IN
  NoProof(T, lab) \cup { [n EXCEPT !.pk = 2, !.x = var, !.y = start], SubGoal(Append(lab, 0), b, <<>>), SubGoal(Append(lab, 1), i, <<>>) }
ByCase(T, lab, c, nc) == LET n == At(T, lab) st == <<n.e, n.l, n.r, n.pd>> IN
  NoProof(T, lab) \cup { [n EXCEPT !.pk = 3, !.x = c, !.y = 0], SubGoal(Append(lab, 0), st, <<c>>), SubGoal(Append(lab, 1), st, <<nc>>) }
ByRewrite(T, lab, be, bcs) == LET n == At(T, lab) IN
  NoProof(T, lab) \cup { [n EXCEPT !.pk = 4, !.x = 0, !.y = 0], N(Append(lab, 0), "rw", be, 0, 0, "", 0, bcs, 0, 0) }
\* ---- (c) finished.  LC : labels of goals with a calculation / rewrite proof -> the leaf obligation is closed;
\*      SG : labels of goals -> the well-formedness sub-goals of the goal are finished
RECURSIVE Fin(_, _, _, _)
Fin(T, lab, LC, SG) ==
  LET g == At(T, lab) IN
  /\ SG[lab]
  /\ CASE g.pk = 0 -> FALSE
       [] g.pk \in {1, 4} -> LC[lab]
       [] OTHER -> Fin(T, Append(lab, 0), LC, SG) /\ Fin(T, Append(lab, 1), LC, SG)
\* the same thing said flatly: no open leaf obligation at or below the goal
OpenLeaves(T, lab, LC, SG) ==
  { n \in Under(T, lab) : n.k = "goal" /\ (n.pk = 0 \/ (n.pk \in {1, 4} /\ ~LC[n.lab]) \/ ~SG[n.lab]) }
\* ---- (d) what a goal at lab sees of its own item: conditions of the goals on the path, induction hypotheses of the
\*      induction proofs entered through their inductive case
Path(lab) == { SubSeq(lab, 1, j) : j \in 0..Len(lab) }
CondsOnPath(T, lab) == UNION { SeqToSet(At(T, p).cs) : p \in { q \in Path(lab) : Has(T, q) /\ At(T, q).k = "goal" } }
HypsOnPath(T, lab) == { <<At(T, p).l, At(T, p).r>> : p \in { q \in Path(lab) : q # lab /\ Has(T, q) /\ At(T, q).k = "goal" /\ At(T, q).pk = 2 /\ lab[Len(q) + 1] = 1 } }
=============================================================================
