------------------------------- MODULE X05_Ide -------------------------------
(* S/I-specification for X05: the IDE's HTTP API (app/ide.py over logic/basic.py, server/method.py) as a front end of   *)
(* the user directories and of the proof state.                                                                           *)
(*   disk      files[dir][file] = content id (or "none"); dirs = two users and the master library; two files that        *)
(*             requests touch ("t1" holds lemma la and theorem lb, "t2" imports t1 and holds lc), five contents            *)
(*   server    the state app/ide.py keeps BETWEEN requests: the per-user metadata snapshot of logic/basic.py              *)
(*             (theory_cache: known files and their imports, refreshed by find-files only), the one-entry ProofCache      *)
(*             (key = request data, value = per-step outcomes), and the global current theory (kernel.theory.thy =        *)
(*             the set of visible theorem names)                                                                          *)
(*   requests  find / load / save / remove / check (check-modify of la in t1) / init, reinit (init-saved-proof, without    *)
(*             steps / with the client's steps or a stored two-step proof) / apply (apply-method at the end of the        *)
(*             client's steps) / search; clients keep (file, steps) as the Vue front end does and send them with every     *)
(*             request; the second user (Interferer) has a reduced alphabet: find, load t1, save t1 := c2, check, init,    *)
(*             apply sI                                                                                                   *)
(* The mechanisms of the code are switches (TRUE = the behaviour the statement needs, FALSE = as coded at the pinned tree):*)
(*   SwOrderUser    load_metadata sorts the USER's files (FALSE: check_topological_sort() always sorts master's)          *)
(*   SwLoadUser     load-json-file builds the context from the user's files (FALSE: basic.load_theory(filename,            *)
(*                  limit='start') without username = master's file of that name)                                         *)
(*   SwFreshMeta    known files / imports follow the disk (FALSE: snapshot taken at the first access, until find-files)    *)
(*   SwTotal        an exception becomes a JSON error answer (FALSE: HTTP 500)                                            *)
(*   SwApplyReload  apply-method runs in the theory of ITS request (FALSE: on a cache hit, in whatever theory the last     *)
(*                  request of anybody left in the global)                                                                *)
(*   SwCacheWorld   the ProofCache is invalidated when the user's files change (FALSE: key = request data only)            *)
(*   SwCreateAtomic a failed create_cache leaves no entry (FALSE: the key is overwritten before the load can fail, the     *)
(*                  old states stay: the same request repeated is then a HIT on another proof's states)                    *)
(*   SwFailKeeps    a failed step does not touch the session (FALSE is a pure mutant: the attempt works on the cached       *)
(*                  states themselves instead of a copy, so the cached outcomes are spoilt under an unchanged key)          *)
(*   SwCreateAtomic also covers init-saved-proof with a statement that does not parse (initbad): create_cache fails after  *)
(*                  the theory was loaded                                                                                   *)
(* The statement's clauses are the invariants Totality, Persistence, SaveExact, RemoveExact, ReadOnly, Faithful (the answer *)
(* is the answer of a fresh server = a function of the user's own files and the request), FailedStepKeeps and Isolation     *)
(* (the answer equals the answer of a shadow server that only ever saw this user's requests).  With Record = TRUE every    *)
(* behaviour is kept in `hist` and printed by Finish as a vector for harness/drivers/x05.py; with EmitBadOnly the           *)
(* exploration stops at the first step that breaks a clause and only those behaviours are printed (discriminating          *)
(* histories of the as-coded mechanisms).  KeepLast = TRUE keeps the judged last step in the state (`last`, invariants on   *)
(* last.viol; used for the mechanism mutants, whose counterexamples become vectors); KeepLast = FALSE judges every step by an  *)
(* Assert inside the action and forgets it, MaxOps = 0 drops the request counter: states are then only (files, server,          *)
(* shadows, clients) and ALL behaviours of <= MaxLevel requests are covered by a breadth-first search of MaxLevel levels        *)
(* (-workers 1).  Constants of the shipped configurations: check = 4 requests, deep = 6, emit = all behaviours of 2, emit3 = all *)
(* behaviours of 3 that begin by opening a proof, sim = simulated behaviours of 6, ascoded = every mechanism as coded, <= 3.     *)
EXTENDS Naturals, Sequences, FiniteSets, TLC, Json
CONSTANTS MaxOps, MaxLevel, KeepLast, Record, EmitBadOnly, Interferer, FirstOpens,
          SwOrderUser, SwLoadUser, SwFreshMeta, SwTotal, SwApplyReload, SwCacheWorld, SwCreateAtomic, SwFailKeeps
Users == {"ua", "ub"}
Dirs == Users \cup {"master"}
MFiles == {"t1", "t2"}
None == "none"
Content == [c1 |-> [file |-> "t1", imports |-> {}, items |-> <<"la", "lb">>],
            c2 |-> [file |-> "t1", imports |-> {}, items |-> <<"lb">>],
            c3 |-> [file |-> "t1", imports |-> {}, items |-> <<"la", "lb">>],      \* la after the accepted edit
            d1 |-> [file |-> "t2", imports |-> {"t1"}, items |-> <<"lc">>],
            d2 |-> [file |-> "t2", imports |-> {}, items |-> <<"lc">>]]
Cids == DOMAIN Content
CidsOf(f) == { c \in Cids : Content[c].file = f }
Range(s) == { s[i] : i \in 1..Len(s) }
ItemSet(c) == IF c = None THEN {} ELSE Range(Content[c].items)
ImportsOf(c) == IF c = None THEN {} ELSE Content[c].imports
ThmOf(f) == IF f = "t1" THEN "lb" ELSE "lc"
\* items of content c in front of item `lim` ("start": none, "all": all)
BeforeSet(c, lim) == IF c = None \/ lim = "start" THEN {} ELSE IF lim = "all" THEN ItemSet(c)
                     ELSE LET s == Content[c].items I == { i \in 1..Len(s) : s[i] = lim } IN
                          IF I = {} THEN ItemSet(c) ELSE { s[j] : j \in 1..((CHOOSE i \in I : TRUE) - 1) }
Steps == {"sI", "sLa", "sBad"}
\* sI = conjI backwards on the stated goal (only as first step), sLa = lemma la on the first subgoal (needs la), sBad = unknown theorem
OkStep(s, prefix, vis) == CASE s = "sI" -> prefix = <<>> [] s = "sLa" -> prefix = <<"sI">> /\ "la" \in vis [] OTHER -> FALSE
Flags(steps, vis) == [i \in 1..Len(steps) |-> OkStep(steps[i], SubSeq(steps, 1, i - 1), vis)]
\* ---- answers: one shape for all of them (TLC compares like with like) ----
Ans(k, fs, seq, flags) == [k |-> k, fs |-> fs, seq |-> seq, flags |-> flags]
A0(k) == Ans(k, {}, <<>>, <<>>)
\* ---- requests ----
Req(op, u, f, c, e, s) == [op |-> op, u |-> u, f |-> f, c |-> c, e |-> e, s |-> s]
FIX == [order |-> TRUE, loaduser |-> TRUE, fresh |-> TRUE, total |-> TRUE, reload |-> TRUE, world |-> TRUE, atomic |-> TRUE, keeps |-> TRUE]
SW == [order |-> SwOrderUser, loaduser |-> SwLoadUser, fresh |-> SwFreshMeta, total |-> SwTotal, reload |-> SwApplyReload,
       world |-> SwCacheWorld, atomic |-> SwCreateAtomic, keeps |-> SwFailKeeps]
\* ---- server state ----
Snapshot(d) == [loaded |-> TRUE, known |-> { f \in MFiles : d[f] # None }, imp |-> [f \in MFiles |-> ImportsOf(d[f])]]
NoMeta == [loaded |-> FALSE, known |-> {}, imp |-> [f \in MFiles |-> {}]]
NoPc == [valid |-> FALSE, u |-> "-", f |-> "-", steps |-> <<>>, bad |-> FALSE, flags |-> <<>>, world |-> [f \in MFiles |-> None]]
InitDisk == [d \in Dirs |-> [f \in MFiles |-> IF f = "t1" THEN "c1" ELSE None]]
\* app/ide.py ends with basic.load_metadata('master'): master's snapshot is taken when the server starts
CleanSrv(disk) == [meta |-> [d \in Dirs |-> IF d = "master" THEN Snapshot(disk["master"]) ELSE NoMeta], pc |-> NoPc, thy |-> {}]
Fail(sw, s, disk) == [s |-> s, disk |-> disk, ans |-> A0(IF sw.total THEN "err" ELSE "500")]
EnsureMeta(sw, s, disk, u) == IF sw.fresh \/ ~s.meta[u].loaded THEN [s EXCEPT !.meta[u] = Snapshot(disk[u])] ELSE s
\* basic.load_theory_cache(f, u) and the caches of its imports: KeyError for a file the snapshot does not know,
\* FileNotFoundError for a known file that is gone; the imports are the SNAPSHOT's
LoadCache(sw, s, disk, u, f) ==
  LET s1 == EnsureMeta(sw, s, disk, u)  m == s1.meta[u]  imps == m.imp[f]
  IN [s |-> s1, imps |-> imps,
      ok |-> f \in m.known /\ disk[u][f] # None /\ \A g \in imps : g \in m.known /\ disk[u][g] # None]
VisOf(disk, u, f, imps, lim) == UNION { ItemSet(disk[u][g]) : g \in imps } \cup BeforeSet(disk[u][f], lim)
\* ProofCache.check_cache / create_cache for the request data (u, f, steps, statement); bad = the statement does not parse:
\* create_cache then fails AFTER the theory was loaded
EnsureCache(sw, s, disk, u, f, steps, bad) ==
  LET hit == s.pc.valid /\ s.pc.u = u /\ s.pc.f = f /\ s.pc.steps = steps /\ s.pc.bad = bad /\ (sw.world => s.pc.world = disk[u])
      lc == LoadCache(sw, s, disk, u, f)
      vis == VisOf(disk, u, f, lc.imps, ThmOf(f))
      s1 == IF lc.ok THEN [lc.s EXCEPT !.thy = vis] ELSE lc.s
  IN IF hit THEN [ok |-> TRUE, s |-> s]
     ELSE IF ~lc.ok \/ bad
          THEN [ok |-> FALSE, s |-> IF sw.atomic \/ ~s.pc.valid THEN [s1 EXCEPT !.pc = NoPc]
                                    ELSE [s1 EXCEPT !.pc.u = u, !.pc.f = f, !.pc.steps = steps, !.pc.bad = bad, !.pc.world = disk[u]]]
     ELSE [ok |-> TRUE, s |-> [s1 EXCEPT !.pc = [valid |-> TRUE, u |-> u, f |-> f, steps |-> steps, bad |-> FALSE, flags |-> Flags(steps, vis),
                                                 world |-> disk[u]]]]
\* one request; `steps` = the steps the client sends along (init: none)
Srv(sw, s, disk, r, steps) ==
  LET u == r.u  f == r.f IN
  CASE r.op = "find" ->
         LET s1 == [s EXCEPT !.meta[u] = Snapshot(disk[u])]  m == s1.meta[u]
         IN IF ~sw.order \/ ~(\A g \in m.known : m.imp[g] \subseteq m.known) THEN Fail(sw, s1, disk)
            ELSE [s |-> s1, disk |-> disk, ans |-> Ans("files", m.known, <<>>, <<>>)]
    [] r.op = "load" ->
         LET lc == LoadCache(sw, s, disk, u, f)
             cu == IF sw.loaduser THEN u ELSE "master"
             lm == LoadCache(sw, lc.s, disk, cu, f)
         IN IF ~lc.ok THEN Fail(sw, lc.s, disk) ELSE IF ~lm.ok THEN Fail(sw, lm.s, disk)
            ELSE [s |-> [lm.s EXCEPT !.thy = VisOf(disk, cu, f, lm.imps, "start") \cup ItemSet(disk[u][f])], disk |-> disk,
                  ans |-> Ans("theory", lc.imps, Content[disk[u][f]].items, <<>>)]
    [] r.op = "save" -> [s |-> s, disk |-> [disk EXCEPT ![u][f] = r.c], ans |-> A0("ok")]
    [] r.op = "remove" -> IF disk[u][f] = None THEN Fail(sw, s, disk)
                          ELSE [s |-> s, disk |-> [disk EXCEPT ![u][f] = None], ans |-> A0("ok")]
    [] r.op = "check" ->
         LET lc == LoadCache(sw, s, disk, u, f)
         IN IF ~lc.ok \/ "la" \notin ItemSet(disk[u][f]) THEN Fail(sw, lc.s, disk)
            ELSE [s |-> [lc.s EXCEPT !.thy = VisOf(disk, u, f, lc.imps, "la")], disk |-> disk, ans |-> Ans("item", {}, <<r.e>>, <<>>)]
    [] r.op \in {"init", "reinit", "initbad"} ->
         LET ec == EnsureCache(sw, s, disk, u, f, steps, r.op = "initbad")
         IN IF ~ec.ok THEN Fail(sw, ec.s, disk) ELSE [s |-> ec.s, disk |-> disk, ans |-> Ans("proof", {}, <<>>, ec.s.pc.flags)]
    [] r.op = "apply" ->
         LET ec == EnsureCache(sw, s, disk, u, f, steps, FALSE)
             lc == LoadCache(sw, ec.s, disk, u, f)
             thy == IF sw.reload THEN VisOf(disk, u, f, lc.imps, ThmOf(f)) ELSE ec.s.thy
             s2 == IF sw.reload THEN [lc.s EXCEPT !.thy = thy] ELSE ec.s
             grown == [s2 EXCEPT !.pc.steps = Append(steps, r.s), !.pc.flags = Append(s2.pc.flags, OkStep(r.s, steps, thy))]
         IN IF ~ec.ok \/ (sw.reload /\ ~lc.ok) THEN Fail(sw, ec.s, disk)
            ELSE IF ~OkStep(r.s, steps, thy)
                 THEN [s |-> IF sw.keeps THEN s2 ELSE [s2 EXCEPT !.pc.flags = [i \in DOMAIN s2.pc.flags |-> FALSE]], disk |-> disk, ans |-> A0("stepfail")]
            ELSE [s |-> grown, disk |-> disk, ans |-> Ans("proof", {}, <<>>, grown.pc.flags)]
    [] r.op = "search" ->
         LET ec == EnsureCache(sw, s, disk, u, f, steps, FALSE)
             lc == LoadCache(sw, ec.s, disk, u, f)
             vis == VisOf(disk, u, f, lc.imps, ThmOf(f))
         IN IF ~ec.ok \/ ~lc.ok THEN Fail(sw, lc.s, disk)
            ELSE [s |-> [lc.s EXCEPT !.thy = vis], disk |-> disk, ans |-> Ans("sugg", {"la"} \cap vis, <<>>, <<>>)]
\* the reference: a server that has just started on the same files
RefAns(disk, r, steps) == Srv(FIX, CleanSrv(disk), disk, r, steps).ans
\* ---- the transition system ----
VARIABLES files, srv, solo, cl, ops, last, hist, done
vars == <<files, srv, solo, cl, ops, last, hist, done>>
NoCl == [open |-> FALSE, f |-> "-", steps |-> <<>>]
NoLast == [req |-> Req("none", "-", "-", "-", "-", "-"), steps |-> <<>>, ans |-> A0("none"), ref |-> A0("none"), viol |-> {}]
Init == /\ files = InitDisk /\ srv = CleanSrv(InitDisk) /\ solo = [u \in Users |-> CleanSrv(InitDisk)]
        /\ cl = [u \in Users |-> NoCl] /\ ops = 0 /\ last = NoLast /\ hist = <<>> /\ done = FALSE
\* what a reinit of the client's own data would be answered (the observable session)
View(s, disk, u, c) == IF ~c.open THEN A0("none") ELSE Srv(SW, s, disk, Req("reinit", u, c.f, "-", "-", "-"), c.steps).ans
\* ---- the statement's clauses, about the last step ----
Loadable(d, f) == d[f] # None /\ \A g \in ImportsOf(d[f]) : d[g] # None
WellFormed(d) == \A f \in MFiles : d[f] # None => \A g \in ImportsOf(d[f]) : d[g] # None
ClausesOf(L, fl) ==
  LET r == L.req  u == r.u  f == r.f  b == L.before IN
  IF r.op = "none" THEN {} ELSE
  (IF L.ans.k = "500" THEN {"Totality"} ELSE {})
  \cup (IF r.op = "load" /\ Loadable(b[u], f) /\ L.ans # Ans("theory", ImportsOf(b[u][f]), Content[b[u][f]].items, <<>>) THEN {"Persistence"} ELSE {})
  \cup (IF r.op = "find" /\ WellFormed(b[u]) /\ L.ans # Ans("files", { g \in MFiles : b[u][g] # None }, <<>>, <<>>) THEN {"Persistence"} ELSE {})
  \cup (IF r.op = "save" /\ ~(L.ans.k = "ok" /\ fl = [b EXCEPT ![u][f] = r.c]) THEN {"SaveExact"} ELSE {})
  \cup (IF r.op = "remove" /\ ~(IF b[u][f] # None THEN L.ans.k = "ok" /\ fl = [b EXCEPT ![u][f] = None] ELSE fl = b /\ L.ans.k # "ok")
        THEN {"RemoveExact"} ELSE {})
  \cup (IF r.op \notin {"save", "remove"} /\ fl # b THEN {"ReadOnly"} ELSE {})
  \cup (IF r.op \in {"check", "init", "reinit", "initbad", "apply", "search"} /\ L.ans # L.ref THEN {"Faithful"} ELSE {})
  \cup (IF r.op = "apply" /\ L.ans.k = "stepfail" /\ ~L.keeps THEN {"FailedStepKeeps"} ELSE {})
  \cup (IF L.ans # L.solo THEN {"Isolation"} ELSE {})
Totality == "Totality" \notin last.viol
Persistence == "Persistence" \notin last.viol
SaveExact == "SaveExact" \notin last.viol
RemoveExact == "RemoveExact" \notin last.viol
ReadOnly == "ReadOnly" \notin last.viol
Faithful == "Faithful" \notin last.viol
FailedStepKeeps == "FailedStepKeeps" \notin last.viol
Isolation == "Isolation" \notin last.viol
\* ---- actions: one per request kind ----
\* (every intermediate result is bound by a quantifier over a singleton: TLC then evaluates it once)
Do(r, steps, ncl) ==
  \E o \in { Srv(SW, srv, files, r, steps) } : \E so \in { Srv(SW, solo[r.u], files, r, steps) } : \E ref \in { RefAns(files, r, steps) } :
  \E keeps \in { IF r.op = "apply" THEN View(o.s, o.disk, r.u, cl[r.u]) = View(srv, files, r.u, cl[r.u]) ELSE TRUE } :
  \E viol \in { ClausesOf([req |-> r, steps |-> steps, ans |-> o.ans, ref |-> ref, solo |-> so.ans, keeps |-> keeps, before |-> files], o.disk) } :
     /\ files' = o.disk /\ srv' = o.s /\ solo' = [solo EXCEPT ![r.u] = so.s]
     /\ cl' = [cl EXCEPT ![r.u] = IF r.op = "apply" /\ o.ans.k = "proof" THEN [ncl EXCEPT !.steps = Append(steps, r.s)] ELSE ncl]
     \* KeepLast = FALSE: the step is judged here and not remembered (fewer states: what led to a state is not part of it)
     /\ (IF KeepLast THEN TRUE ELSE Assert(viol = {}, <<"X05 clause broken", viol, r, steps>>))
     /\ last' = (IF KeepLast THEN [req |-> r, steps |-> steps, ans |-> o.ans, ref |-> ref, viol |-> viol] ELSE NoLast)
     /\ ops' = (IF MaxOps > 0 THEN ops + 1 ELSE ops) /\ UNCHANGED done
     /\ hist' = IF Record THEN Append(hist, [req |-> r, steps |-> steps, exp |-> ref, files |-> o.disk, viol |-> viol]) ELSE hist
Full(u) == u # Interferer
Find(u) == Do(Req("find", u, "-", "-", "-", "-"), <<>>, cl[u])
Load(u, f) == (Full(u) \/ f = "t1") /\ Do(Req("load", u, f, "-", "-", "-"), <<>>, cl[u])
Save(u, f, c) == (Full(u) \/ c = "c2") /\ Do(Req("save", u, f, c, "-", "-"), <<>>, cl[u])
Remove(u, f) == Full(u) /\ Do(Req("remove", u, f, "-", "-", "-"), <<>>, cl[u])
Check(u, e) == (Full(u) \/ e = "bad") /\ Do(Req("check", u, "t1", "-", e, "-"), <<>>, cl[u])
Open(u, f) == (Full(u) \/ f = "t1") /\ Do(Req("init", u, f, "-", "-", "-"), <<>>, [open |-> TRUE, f |-> f, steps |-> <<>>])
\* init-saved-proof with a statement that does not parse (a well-formed request with "any values")
OpenBad(u, f) == Full(u) /\ Do(Req("initbad", u, f, "-", "-", "-"), <<>>, cl[u])
\* a theorem whose stored proof (two steps) is opened: the front end sends the stored steps with init-saved-proof
Stored(k) == SubSeq(<<"sI", "sLa">>, 1, k)
OpenSaved(u, f, k) == Full(u) /\ Do(Req("reinit", u, f, "-", "-", "-"), Stored(k), [open |-> TRUE, f |-> f, steps |-> Stored(k)])
Reinit(u) == Full(u) /\ cl[u].open /\ Do(Req("reinit", u, cl[u].f, "-", "-", "-"), cl[u].steps, cl[u])
Apply(u, s) == (Full(u) \/ s = "sI") /\ cl[u].open /\ Len(cl[u].steps) < 2 /\ Do(Req("apply", u, cl[u].f, "-", "-", s), cl[u].steps, cl[u])
Search(u) == Full(u) /\ cl[u].open /\ Do(Req("search", u, cl[u].f, "-", "-", "-"), cl[u].steps, cl[u])
Step == \E u \in Users :
           \/ Find(u) \/ Reinit(u) \/ Search(u)
           \/ \E f \in MFiles : Load(u, f) \/ Remove(u, f) \/ Open(u, f) \/ OpenBad(u, f) \/ (\E k \in 1..2 : OpenSaved(u, f, k)) \/ \E c \in CidsOf(f) : Save(u, f, c)
           \/ \E e \in {"good", "bad"} : Check(u, e)
           \/ \E s \in Steps : Apply(u, s)
\* FirstOpens: only behaviours that begin with the first user opening a proof in t1 (vectors with many session requests)
Opening == \E u \in Users \ {Interferer} : Open(u, "t1") \/ \E k \in 1..2 : OpenSaved(u, "t1", k)
Broken == last.viol # {}
Finish == /\ Record /\ ~done /\ MaxOps > 0 /\ ops >= 1 /\ (IF EmitBadOnly THEN Broken ELSE ops = MaxOps) /\ done' = TRUE
          /\ PrintT(<<"X05", ToJson([steps |-> hist])>>)
          /\ UNCHANGED <<files, srv, solo, cl, ops, last, hist>>
\* MaxOps > 0: a counter in the state bounds the behaviours (needed when they are recorded).  MaxOps = 0: no counter - states
\* reached by different numbers of requests are ONE state, breadth-first search visits each at its smallest depth, and only states
\* of level <= MaxLevel (= reached by fewer than MaxLevel requests) are expanded: all behaviours of <= MaxLevel requests
Next == (~done /\ (IF MaxOps = 0 THEN TLCGet("level") <= MaxLevel ELSE ops < MaxOps) /\ ~(EmitBadOnly /\ Broken)
            /\ (IF FirstOpens /\ ops = 0 THEN Opening ELSE Step)) \/ Finish
Spec == Init /\ [][Next]_vars
=============================================================================
