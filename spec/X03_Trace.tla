------------------------------ MODULE X03_Trace ------------------------------
(* T-specification of X03.  One event per step of a history performed by the REAL code (harness/drivers/x03.py), either a behaviour   *)
(* printed by TLC from X03_Type / X03_Poly (fam "v") or a seeded random longer history over a wider alphabet (fam "r").               *)
(*  kind "ty": op = [k, P, U, c, s] on the type workbench; B / A = [cur, ti, saved] projected before / after the step (types in the    *)
(*     encoding of lib/HolTerms, instantiations as lists of pairs in the order the TyInst holds them), out = "ok" or the name of the    *)
(*     exception, o = what the code answered to the observations of the operation (X03_Machines.TyObs lists the fields)                *)
(*  kind "po": op = [k, g, c, n] on the polynomial workbench; B / A = [p, q, r], each the sequence of <<coeff, factors>> read from      *)
(*     Polynomial.monomials (rationals as pairs), o as X03_Machines.PoObs; big = a number does not fit TLC's integers: not examined      *)
(*  lost: the code could not follow the behaviour any further (an earlier step raised where the reference completes): not examined     *)
(* Every verdict is computed here with the operators of X03_Machines / X03_Defs, the same ones the S specifications use.                *)
EXTENDS X03_Machines, TraceLib
Judged(e) == ~e.lost /\ (e.kind = "ty" \/ (e.kind = "po" /\ ~e.big))
ClausesOf(e) ==
  IF ~Judged(e) THEN {}
  ELSE IF e.kind = "ty" THEN (IF e.op.k \in TyKinds THEN TyClauses(e.B, e.op, e.A, e.out, e.o) ELSE {})
  ELSE IF e.op.k \in PoKinds THEN PoClauses(e.B, e.op, e.A, e.out, e.o) ELSE {}
Nontrivial(e) ==
  Judged(e) /\ (IF e.kind = "ty" THEN e.op.k \in TyKinds /\ (e.op.k # "match" \/ ArityCoherent({e.op.P, e.op.U} \cup ALTypes(e.B.ti)))
                ELSE e.op.k \in PoKinds /\ PoExamined(e.B, e.op, e.A, e.out))
Diverges(e) ==
  IF ~Judged(e) THEN TRUE
  ELSE IF e.kind = "ty" THEN e.op.k \in TyKinds /\ TyDiverges(e.B, e.op, e.A, e.out, e.o)
  ELSE e.op.k \in PoKinds /\ PoDiverges(e.B, e.op, e.A, e.out, e.o)
TNext == LET e == Trace[l] IN TStep(e.tid, ClausesOf(e), Nontrivial(e), Diverges(e))
TSpec == TInit /\ [][TNext]_l
=============================================================================
