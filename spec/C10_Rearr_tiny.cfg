SPECIFICATION Spec
CONSTANTS SeedLeaves = 2
 MaxLeaves = 3
 PropMembers = 2
 MaxMembers = 3
 MaxNnfSize = 9
 Rich = FALSE
INVARIANT TypeInv
INVARIANT PolyPreserved
INVARIANT MembersPreserved
INVARIANT TablePreserved
INVARIANT AtomsPreserved
CHECK_DEADLOCK FALSE
