SPECIFICATION Spec
CONSTANTS Consts = {"a", "b", "c"}
 MaxOps = 6
 Queries = FALSE
 ChainMode = FALSE
 EmitAll = FALSE

INVARIANT TestCorrect
INVARIANT ExplainCorrect
INVARIANT QueryCorrect
INVARIANT AlwaysSound
INVARIANT RepIdempotent
INVARIANT ClassListsMatch
INVARIANT ForestMatchesRep
INVARIANT ForestLabelsMerged
INVARIANT LookupComplete
CHECK_DEADLOCK FALSE
