------------------------------ MODULE C13_Lines ------------------------------
(* Constant-level vocabulary shared by the S specification C13_LineEdit and the T specification C13_EditorTrace: *)
(* a proof is the sequence of its lines in textual (pre-)order, a line is <<id, uid, prevs>> where id is the path *)
(* of the line (kernel/proof.py ItemID), uid a ghost identity that never changes, prevs the cited ids.            *)
(* The three statements about ONE line-edit step (B = proof before, A = proof after, op = <<name, a, b>> with a, b *)
(* ids in B or <<>>) are the property's own words: numbering is contiguous, citations keep pointing at the SAME    *)
(* items (a replaced item: at its replacement), and no citation of a surviving item is left dangling.             *)
EXTENDS Naturals, Sequences, FiniteSets
LId(ln) == ln[1]
LUid(ln) == ln[2]
LPrevs(ln) == ln[3]
LPrefix(s, n) == SubSeq(s, 1, n)
\* kernel/proof.py ItemID.can_depend_on
LCanDependOn(self, other) == LET k == Len(other) IN
   k >= 1 /\ k <= Len(self) /\ LPrefix(other, k - 1) = LPrefix(self, k - 1) /\ other[k] < self[k]
\* pre-order contiguous numbering: the first line is <<0>>; each next line is the first child of the previous one or the
\* next sibling of the previous line or of one of its ancestors
LNextOK(a, b) == \/ b = Append(a, 0)
                 \/ \E j \in 1..Len(a) : b = Append(LPrefix(a, j - 1), a[j] + 1)
LContiguous(L) == Len(L) > 0 /\ LId(L[1]) = <<0>> /\ \A i \in 1..(Len(L) - 1) : LNextOK(LId(L[i]), LId(L[i + 1]))
LIds(L) == { LId(L[i]) : i \in 1..Len(L) }
LUids(L) == { LUid(L[i]) : i \in 1..Len(L) }
\* id |-> uid of the line numbered id;  uid |-> position of the line
UidMap(L) == [id \in LIds(L) |-> LUid(L[CHOOSE i \in 1..Len(L) : LId(L[i]) = id])]
IdxMap(L) == [u \in LUids(L) |-> CHOOSE i \in 1..Len(L) : LUid(L[i]) = u]
At(m, id) == IF id \in DOMAIN m THEN m[id] ELSE 0       \* 0 = no such line
UidAt(L, id) == At(UidMap(L), id)
\* the k-th citation of line i refers to an existing line (ids = DOMAIN of the uid map m) that line i can depend on
ValidIn(L, m, i, k) == LPrevs(L[i])[k] \in DOMAIN m /\ LCanDependOn(LId(L[i]), LPrevs(L[i])[k])
\* One step.  replace_id(old, new) makes the item `new` stand for the item `old` (R).  A citation (line j of B, position k) is
\* JUDGED when it was in order before the step and the item it refers to (or its replacement) survives the step: a plain
\* remove_line of a cited line leaves its citations dangling, that is the caller's business.
\*   track : the citation still refers to the same item (its replacement), and a `cite` step appended exactly the asked citation
\*   valid : every judged or new citation refers to an existing line that the citing line can depend on
StepOK(B, A, op, what) ==
  LET mB == UidMap(B)
      mA == UidMap(A)
      xB == IdxMap(B)
      uA == LUids(A)
      oldU == IF op[1] = "replace" THEN At(mB, op[2]) ELSE 0
      newU == IF op[1] = "replace" THEN At(mB, op[3]) ELSE 0
      R(v) == IF v # 0 /\ v = oldU THEN newU ELSE v
      Judged(j, k) == ValidIn(B, mB, j, k) /\ R(At(mB, LPrevs(B[j])[k])) \in uA
  IN \A i \in 1..Len(A) :
       LET u == LUid(A[i])
           ap == LPrevs(A[i])
       IN IF u \in DOMAIN xB
          THEN LET j == xB[u]
                   bp == LPrevs(B[j])
                   isSrc == op[1] = "cite" /\ LId(B[j]) = op[2]
               IN IF what = "track"
                  THEN /\ \A k \in 1..Len(bp) : Judged(j, k) => (k <= Len(ap) /\ At(mA, ap[k]) = R(At(mB, bp[k])))
                       /\ isSrc => (Len(ap) = Len(bp) + 1 /\ At(mA, ap[Len(ap)]) = At(mB, op[3]))
                  ELSE \A k \in 1..Len(ap) : (k > Len(bp) \/ Judged(j, k)) => ValidIn(A, mA, i, k)
          ELSE what = "track" \/ \A k \in 1..Len(ap) : ValidIn(A, mA, i, k)
TrackOK(B, A, op) == StepOK(B, A, op, "track")
NoDanglingOK(B, A, op) == StepOK(B, A, op, "valid")
=============================================================================
