----------------------------- MODULE C03_ShareTrace -----------------------------
(* T-specification for C03 (object sharing).  Every history emitted by C03_Share (builds creating *)
(* sharing, hashes, one in-place type instantiation) is performed on REAL Term objects            *)
(* (harness/drivers/c03.py share).  Events:                                                       *)
(*  kind "sact" : hist (the history), ch (children of every object AS OBSERVED by object identity),*)
(*                pre / post (structural encoding of every live object before / after the last     *)
(*                action), pty (the code's checked_get_type of every object after, or <<"err">>)    *)
(*     InstOnce      : the root and its sub-objects encode subst_type applied ONCE to what they did  *)
(*     TypePreserved : the root and its sub-terms, if well-typed before, have the instantiated type *)
(*  kind "sobs" : for a group of live objects after the history, o == structurally rebuilt copy     *)
(*                (eq) and hash(o) == hash(rebuilt copy) (heq)                                      *)
(*     HashFresh     : equal terms have equal hashes, whatever was memoised / mutated before        *)
(*     EqIsStructural: an object equals its structurally rebuilt copy                               *)
(* Divergence: the observed sharing is not the one the history built, or checked_get_type differs   *)
(* from TypeOf of the recorded structure.                                                           *)
EXTENDS HolTerms, TraceLib
RECURSIVE ReachC(_,_), RefValC(_,_,_,_,_)
ReachC(ch, o) == IF ch[o][1] = 0 THEN {o} ELSE {o} \cup ReachC(ch, ch[o][1]) \cup ReachC(ch, ch[o][2])
RefValC(ch, pre, R, ti, o) == IF o \in R THEN STypeTerm(pre[o], ti)
                              ELSE IF ch[o][1] = 0 THEN pre[o]
                              ELSE <<"comb", RefValC(ch, pre, R, ti, ch[o][1]), RefValC(ch, pre, R, ti, ch[o][2])>>
LastA(e) == e.hist[Len(e.hist)]
\* the recorded object graph is a DAG over earlier objects (guards the recursions)
Shaped(e) == /\ Len(e.pre) = Len(e.ch) /\ Len(e.post) = Len(e.ch) /\ Len(e.pty) = Len(e.ch)
             /\ \A o \in 1..Len(e.ch) : e.ch[o][1] < o /\ e.ch[o][2] < o /\ (e.ch[o][1] = 0 <=> e.ch[o][2] = 0)
             /\ LastA(e).act = "inplace" /\ LastA(e).o \in 1..Len(e.ch)
ClausesOf(e) ==
  CASE e.kind = "sact" ->
         IF e.outcome # "ok" THEN {"InplaceRaised"}
         ELSE IF ~Shaped(e) THEN {}
         ELSE LET a == LastA(e)  n == Len(e.ch)  R == ReachC(e.ch, a.o) IN
              (IF \A o \in R : e.post[o] = RefValC(e.ch, e.pre, R, a.ti, o) THEN {} ELSE {"InstOnce"})
              \cup (IF \A o \in R : WellTyped(e.pre[o]) => TypeOf(e.post[o], <<>>) = TSubst(TypeOf(e.pre[o], <<>>), a.ti)
                    THEN {} ELSE {"TypePreserved"})
    [] e.kind = "sobs" ->
         IF e.outcome # "ok" THEN {"EqRaised"}
         ELSE (IF \E i \in 1..Len(e.eq) : ~e.eq[i] THEN {"EqIsStructural"} ELSE {})
              \cup (IF \E i \in 1..Len(e.eq) : e.eq[i] /\ ~e.heq[i] THEN {"HashFresh"} ELSE {})
    [] OTHER -> {}
NontrivialOf(e) ==
  CASE e.kind = "sact" -> e.outcome = "ok" /\ Shaped(e)
    [] e.kind = "sobs" -> e.outcome = "ok" /\ Len(e.eq) > 0
    [] OTHER -> FALSE
HistCh(e) == [i \in 1..Len(e.ch) |-> <<e.hist[i].f, e.hist[i].a>>]
DivergesOf(e) ==
  IF e.kind # "sact" \/ e.outcome # "ok" THEN FALSE
  ELSE IF ~Shaped(e) THEN TRUE
  ELSE \/ e.ch # HistCh(e) \/ \E o \in 1..Len(e.ch) : e.pty[o] # TypeOf(e.post[o], <<>>)
       \* objects outside the instantiated term: the reference mutates the shared sub-objects once (not required by the property)
       \/ LET a == LastA(e) R == ReachC(e.ch, a.o) IN \E o \in 1..Len(e.ch) : e.post[o] # RefValC(e.ch, e.pre, R, a.ti, o)
TNext == LET e == Trace[l] IN TStep(e.tid, ClausesOf(e), NontrivialOf(e), DivergesOf(e))
TSpec == TInit /\ [][TNext]_l
=============================================================================
