------------------------------ MODULE C01_Kernel ------------------------------
(* S-specification for C01: the kernel as a saturation machine (see C01_Rules for the   *)
(* argument pools and the derivation attempts).                                         *)
(*   state   : thms  -- the set of sequents derived so far                              *)
(*             log   -- the derivation attempts of the last round (spec -> code vectors)*)
(*   action  : Saturate -- add every one-step consequence of thms under the 15 rules of *)
(*             lib/Kernel.tla with arguments from typed AND adversarial pools           *)
(*   property: every derived sequent is well-typed and valid in every finite standard   *)
(*             model with |tyvar| <= N (HolSem), and is not  |- false-like (!A. A)       *)
EXTENDS C01_Rules
CONSTANT ExtraInst   \* TRUE: after MaxRound full rounds, one more round of the instantiation rules alone
VARIABLES thms, round, log
vars == <<thms, round, log>>
Init == thms = {} /\ round = 0 /\ log = {}
Saturate == /\ round < MaxRound
            /\ LET atts == Attempts(thms) IN
               /\ thms' = thms \cup { a.res : a \in { a \in atts : Keep(a.res) } }
               /\ log' = { a \in atts : ~IsErrS(a.res) \/ (EmitRejected /\ (Len(a.prems) <= 1 \/ round = 0)) }
            /\ round' = round + 1
\* after the last round: write the attempts of the last round (which include those of all earlier rounds' sequents)
ToJ(a) == [rule |-> a.rule, arg |-> a.arg,
           prems |-> [i \in 1..Len(a.prems) |-> [h |-> SetToSeq(a.prems[i].h), c |-> a.prems[i].c]],
           expected |-> IF IsErrS(a.res) THEN [h |-> <<>>, c |-> NoArg] ELSE [h |-> SetToSeq(a.res.h), c |-> a.res.c]]
\* one more round, instantiation rules only (a full round is quadratic in |thms|): reaches instantiations of sequents
\* whose derivation already took MaxRound rule applications (e.g. two assumptions joined by implies_intr/implies_elim)
SaturateInst == /\ ExtraInst /\ round = MaxRound
                /\ LET atts == InstAttempts(thms) IN
                   /\ thms' = thms \cup { a.res : a \in { a \in atts : Keep(a.res) } }
                   /\ log' = log \cup { a \in atts : ~IsErrS(a.res) }
                /\ round' = round + 1
LastRound == MaxRound + (IF ExtraInst THEN 1 ELSE 0)
Emit == /\ round = LastRound
        /\ LET ls == SetToSeq(log) IN ndJsonSerialize(IOEnv.VECTOR_FILE, [i \in 1..Len(ls) |-> ToJ(ls[i])])
        /\ PrintT(<<"vectors", Cardinality(log), "thms", Cardinality(thms)>>)
        /\ round' = round + 1 /\ UNCHANGED <<thms, log>>
Next == Saturate \/ SaturateInst \/ Emit
Spec == Init /\ [][Next]_vars

\* ---------------------------------------------------------------- properties
AllWellTyped == \A th \in thms : SeqWellTyped(th)
AllExaminable == \A th \in thms : Examinable(th, N)
AllValid == \A th \in thms : Examinable(th, N) => Valid(th, N)
FalseLike == { Forall(vA, vA), Forall(sP, sP) }
NoFalse == \A th \in thms : ~(th.h = {} /\ th.c \in FalseLike)
\* vacuity guards (checked as invariants of the final state through the constraint below)
NonVacuous == round = LastRound + 1 => /\ Cardinality(thms) > 50
                                     /\ \E th \in thms : IsAll(th.c) /\ th.h # {}
                                     /\ \E t2 \in thms : \E x \in t2.h : SVarsOf(x) # {}
=============================================================================
