SPECIFICATION Spec
CONSTANTS Depth = 3
 MaxOps = 1
 Pats <- None
 Targs <- None
 Insts <- None
 CmpSet <- None
 Cmp3Set <- None
 Kinds <- KindsLook
 Record = TRUE
 EmitAll = TRUE
INVARIANT StepsLawful
INVARIANT LookLawful
INVARIANT InstsFunctional
INVARIANT ComposeLaw
INVARIANT MatcherIsReference
INVARIANT OrdersLawful
CHECK_DEADLOCK FALSE
