SPECIFICATION Spec
CONSTANTS Depth = 3
 MaxOps = 0
 Pats <- None
 Targs <- None
 Insts <- None
 CmpSet <- None
 Kinds <- KindsAll
 Record = TRUE
 EmitAll = TRUE
INVARIANT StepsLawful
INVARIANT LookLawful
INVARIANT InstsFunctional
INVARIANT ComposeLaw
INVARIANT MatcherIsReference
INVARIANT OrdersLawful
CHECK_DEADLOCK FALSE
