SPECIFICATION Spec
CONSTANTS Coef2 <- R22
 Const2 <- R33
 MinC = 1
 MaxC = 3
 CoefA3 <- R22
 CoefB3 <- R22
 Const3 <- R11
 CoefR <- R22
 ConstR <- R11
 B = 20
 BU = 10
 BS = 8
 BS0 = 13
 K = 12
INVARIANT TypeOK
INVARIANT OrigInClass
INVARIANT RealSound
INVARIANT ContrSound
INVARIANT DarkSound
INVARIANT ExactComplete
INVARIANT FMExact
INVARIANT BoxStable
INVARIANT SpecialisationOK
POSTCONDITION Covered
CHECK_DEADLOCK FALSE
