------------------------------ MODULE C02_Checker ------------------------------
(* S-specification for C02.                                                               *)
(*   state    : prf  -- the proof object built so far (every reachable state IS a proof    *)
(*                      object; TLC explores the space of proof objects)                   *)
(*              openp-- position path of the innermost block still being filled (<<>> =    *)
(*                      none); blocks nest up to MaxDepth and several sibling blocks may   *)
(*                      follow one another, so a later block can cite INTO an earlier,     *)
(*                      closed one                                                         *)
(*              w    -- number of anomalies spent (identifier # position, citation that is *)
(*                      not an earlier visible position, stated sequent that is not what   *)
(*                      the rule yields, ...)                                              *)
(*   actions  : AddItem, OpenBlock, CloseBlock -- nondeterministic construction:           *)
(*              identifiers from position+IdOffs (shifted / swapped / duplicated arise),   *)
(*              citations existing / dangling / forward / self / negative / into a closed  *)
(*              block, stated sequent absent / exact / weaker / stronger / other,          *)
(*              placeholders (sorry, gap macro) and empty lines anywhere; argument objects  *)
(*              of every kind on every primitive rule, with numbers of citations that do    *)
(*              and do not fit the rule; the same item OBJECT placed at a second position   *)
(*              (AddAlias) and equal twin items                                            *)
(*   property : the reference checker RefCheck (C02_Ref) is sound and counts gaps exactly  *)
(*              (invariants below).  Every complete object is emitted as a vector that is  *)
(*              replayed into theory.check_proof / Theory.checked_extend.                  *)
EXTENDS C02_Ref, Json, IOUtils, CSV, SequencesExt

CONSTANTS MaxItems,    \* top-level items
          MaxSub,      \* items in a block
          MaxBlocks,   \* blocks per object
          MaxDepth,    \* nesting depth of blocks (1 = blocks at top level only)
          MaxLeaves,   \* rule items (anything but blocks) per object, at all depths together
          Lean,        \* TRUE: rule items never state their sequent (keeps slices with several blocks small)
          Budget,      \* anomalies per object
          IdOffs,      \* identifier = position + offset
          Rules,       \* rule names used by the generator
          ArgKinds,    \* kinds of argument objects tried where the rule's signature asks for another kind ({} = none)
          ArityOffs,   \* number of citations = the rule's number of premises + offset
          MaxAlias,    \* how many times an item object may be placed at a further position
          Emit         \* write vectors to IOEnv.VECTOR_FILE

\* cfg files cannot contain negative literals: IdOffs <- IdOffs3 etc.
IdOffs1 == {0}
IdOffs2 == {0, 1}
IdOffs3 == {-1, 0, 1}
IdOffs4 == {-1, 0, 1, 2}
ArityOffs1 == {0}
ArityOffs3 == {-1, 0, 1}

\* rn, rg: ghost variables = RefCheck of the current object without / with gaps allowed (functions of prf,
\* kept in the state so that each is evaluated once per object)
VARIABLES prf, openp, w, rn, rg
vars == <<prf, openp, w, rn, rg>>

\* ---------------------------------------------------------------- generator helpers
\* items carry a ghost field nat: the sequent the rule yields when its citations are resolved by position
\* in the object built so far (NoneS when unknown); stated sequents are chosen relative to it
Eff(it) == IF IsNone(it.th) THEN it.nat ELSE it.th
Fallback == Sq({}, atB)
Arity(rl) == CASE rl \in {"implies_intr", "substitution", "subst_type", "symmetric", "verif_id0", "abstraction", "forall_intr", "forall_elim"} -> 1
               [] rl \in {"implies_elim", "transitive", "equal_intr", "equal_elim", "combination"} -> 2
               [] OTHER -> 0
\* a: argument record [ak, a, at, w]
NatOf(rl, a, cs, cur) ==
  IF rl \in {"", "sorry", "subproof"} THEN NoneS
  ELSE IF rl = "verif_gap1" THEN (IF a.ak = "term" THEN Sq({}, a.a) ELSE Fallback)
  ELSE IF rl \in Unmodelled \/ (a.ak # Sig(rl) /\ rl # "verif_id0" /\ ~(Sig(rl) = "none" /\ a.ak = "thm")) THEN Fallback
  ELSE LET ps == [k \in 1..Len(cs) |-> FindPos(cur, cs[k], TRUE)] IN
       IF \E k \in 1..Len(cs) : ps[k] = ErrPos THEN Fallback
       ELSE LET es == [k \in 1..Len(cs) |-> Eff(ItemAt(cur, ps[k]))] IN
            IF \E k \in 1..Len(cs) : IsNone(es[k]) THEN Fallback
            ELSE LET outs == Apply(rl, a.a, IF a.ak = "thm" THEN <<a.at>> \o es ELSE es) IN   \* a Thm argument lands in front of the premises
                 IF outs = {} THEN Fallback ELSE CHOOSE o \in outs : TRUE
OtherC(c) == IF c = atA THEN atB ELSE atA
Variants(s) == (IF atB \notin s.h THEN {Sq(s.h \cup {atB}, s.c)} ELSE IF atA \notin s.h THEN {Sq(s.h \cup {atA}, s.c)} ELSE {})
               \cup (IF s.h = {} THEN {} ELSE {Sq(s.h \ {CHOOSE y \in s.h : TRUE}, s.c)})
               \cup {Sq(s.h, OtherC(s.c))}
TW(t, x) == [th |-> t, w |-> x]
ThOpts(rl, nat) ==
  CASE rl = "" -> {TW(NoneS, 0), TW(Sq({}, atB), 1)}
    [] rl = "sorry" -> {TW(Sq({}, atB), 0), TW(NoneS, 1)}
    [] Lean -> {TW(NoneS, 0)}
    [] OTHER -> IF IsNone(nat) THEN {TW(NoneS, 0), TW(Sq({}, atB), 1)}
                ELSE {TW(NoneS, 0), TW(nat, 0)} \cup { TW(v, 1) : v \in Variants(nat) \ {nat} }
AR(ak, a, at, x) == [ak |-> ak, a |-> a, at |-> at, w |-> x]
FitArgs(rl) == CASE rl \in {"assume", "reflexive"} -> {AR("term", atA, NoneS, 0), AR("term", atB, NoneS, 0)}
                 [] rl \in {"implies_intr", "beta_conv", "abstraction", "forall_intr", "forall_elim"} -> {AR("term", atA, NoneS, 0)}
                 [] rl = "theorem" -> {AR("name", <<"at", "T1">>, NoneS, 0), AR("name", <<"at", "TX">>, NoneS, 1)}
                 [] rl = "verif_gap1" -> {AR("term", atB, NoneS, 0)}
                 [] rl = "substitution" -> {AR("inst", NoneP, NoneS, 0)}
                 [] rl = "subst_type" -> {AR("tyinst", NoneP, NoneS, 0)}
                 [] OTHER -> {AR("none", NoneP, NoneS, 0)}
\* made-up theorem objects that would be useful premises: relative to the conclusion of the preceding item
ThmPool(lastc) == {Sq({}, atB), Sq({}, Imp(lastc, atB)), Sq({}, Eq(lastc, atB))}
KindArgs(k, lastc) == CASE k = "none" -> {AR("none", NoneP, NoneS, 1)}
                        [] k = "term" -> {AR("term", atA, NoneS, 1)}
                        [] k = "thm" -> { AR("thm", NoneP, t, 1) : t \in ThmPool(lastc) }
                        [] k = "tuple" -> {AR("tuple", atA, NoneS, 1)}
                        [] k = "name" -> {AR("name", <<"at", "T1">>, NoneS, 1)}
                        [] OTHER -> {AR(k, NoneP, NoneS, 1)}                       \* "type", "inst", "tyinst"
Args(rl, lastc) == FitArgs(rl) \cup (IF rl \in ArgIgnored THEN {} ELSE UNION { KindArgs(k, lastc) : k \in ArgKinds \ {Sig(rl)} })
NCites(rl) == { n \in 0..2 : n - Arity(rl) \in ArityOffs }
\* a citation costs nothing iff it names an existing position visible from p
CW(p, c) == IF Visible(p, c) /\ \A k \in 1..Len(c) : c[k] >= 0 THEN 0 ELSE 1
RECURSIVE SumW(_, _)
SumW(p, cs) == IF Len(cs) = 0 THEN 0 ELSE CW(p, cs[1]) + SumW(p, Tail(cs))
\* citation pool of an item about to be placed at position pos = path \o <<i>> (path = the open block, <<>> = top level)
ItemsAt(p, path) == IF path = <<>> THEN p ELSE ItemAt(p, path).sub
Cap(path) == IF path = <<>> THEN MaxItems ELSE MaxSub
\* identifier prefixes: the real position of the enclosing block, or the identifier that block carries
IdPrefixes(path) == IF path = <<>> THEN {<<>>} ELSE {path, ItemAt(prf, path).id}
\*   siblings (earlier / self / later / dangling / negative), by position prefix or by the parent's identifier
OwnCites(path) == IF path = <<>> THEN { <<j>> : j \in (-1)..MaxItems }
                  ELSE { Append(q, i) : q \in IdPrefixes(path), i \in (-1)..MaxSub }
\*   siblings of the ancestors (earlier = legitimate, the ancestor itself, the next one)
LevelCites(path) == UNION { { Append(SubSeq(path, 1, m - 1), j) : j \in (-1)..(path[m] + 1) } : m \in 1..Len(path) }
\*   items INSIDE a closed block that is an earlier sibling of pos or of one of its ancestors
ClosedInner(pos) == { q \in AllPos(prf) : \E m \in 1..(Len(q) - 1) : Visible(pos, SubSeq(q, 1, m)) }
\* Lean slices concentrate on citations into closed blocks: the other anomalous citations are left to the other slices
CitePool(path, pos) == IF Lean THEN { c \in OwnCites(path) \cup LevelCites(path) : CW(pos, c) = 0 } \cup ClosedInner(pos)
                       ELSE OwnCites(path) \cup LevelCites(path) \cup ClosedInner(pos)
RECURSIVE AppendAt(_, _, _, _)
AppendAt(items, path, k, it) == IF k > Len(path) THEN Append(items, it)
                                ELSE [items EXCEPT ![path[k] + 1].sub = AppendAt(@, path, k + 1, it)]
RECURSIVE CloseAt(_, _, _, _, _)
CloseAt(items, path, k, th, nat) == IF k = Len(path) THEN [items EXCEPT ![path[k] + 1].th = th, ![path[k] + 1].nat = nat]
                                    ELSE [items EXCEPT ![path[k] + 1].sub = CloseAt(@, path, k + 1, th, nat)]
RECURSIVE CountLeaves(_)
CountLeaves(items) == IF Len(items) = 0 THEN 0
                      ELSE (IF items[1].rule = "subproof" THEN CountLeaves(items[1].sub) ELSE 1) + CountLeaves(Tail(items))
RECURSIVE CountAlias(_)
CountAlias(items) == IF Len(items) = 0 THEN 0
                     ELSE (IF items[1].alias # <<>> THEN 1 ELSE 0) + CountAlias(items[1].sub) + CountAlias(Tail(items))
RECURSIVE CountBlocks(_)
CountBlocks(items) == IF Len(items) = 0 THEN 0
                      ELSE (IF items[1].rule = "subproof" THEN 1 + CountBlocks(items[1].sub) ELSE 0) + CountBlocks(Tail(items))

\* with no budget left only the anomaly-free choices are enumerated (same successors, fewer candidates)
OffsFor(rem) == IF rem <= 0 THEN IdOffs \cap {0} ELSE IdOffs
CitesFor(pool, p, rem) == IF rem <= 0 THEN { c \in pool : CW(p, c) = 0 } ELSE pool

\* ---------------------------------------------------------------- emission (spec -> code vectors)
RECURSIVE ToJ(_)
SeqJ(s) == [h |-> SetToSeq(s.h), c |-> s.c]
ToJ(items) == [i \in 1..Len(items) |->
                 [id |-> items[i].id, rule |-> items[i].rule, ak |-> items[i].ak, arg |-> items[i].arg, at |-> SeqJ(items[i].at),
                  prevs |-> items[i].prevs, th |-> SeqJ(items[i].th), sub |-> ToJ(items[i].sub), alias |-> items[i].alias]]
\* stated theorems offered to checked_extend together with the object as its proof
ExtStated(p) == LET s == Eff(p[Len(p)]) IN
                IF IsNone(s) THEN {Sq({}, atB)}
                ELSE {s, Sq(s.h, OtherC(s.c))} \cup (IF s.h = {} THEN {} ELSE {Sq({}, s.c)})
EmitObj(p) == IF Emit THEN CSVWrite("%1$s", << ToJson([prf |-> ToJ(p), exts |-> [x \in 1..Cardinality(ExtStated(p)) |-> SeqJ(SetToSeq(ExtStated(p))[x])]]) >>,
                                    IOEnv.VECTOR_FILE)
              ELSE TRUE

\* ---------------------------------------------------------------- actions
Item(id, rl, a, cs, th, nat) == [id |-> id, rule |-> rl, ak |-> a.ak, arg |-> a.a, at |-> a.at, prevs |-> cs, th |-> th, sub |-> <<>>,
                                 alias |-> <<>>, nat |-> nat]
NoArg == AR("none", NoneP, NoneS, 0)
\* conclusion of the item before position i of the current list (atA when there is none)
LastC(its) == IF Len(its) = 0 THEN atA ELSE LET e == Eff(its[Len(its)]) IN IF IsNone(e) THEN atA ELSE e.c
Ghost == rn' = RefCheck(prf', TRUE) /\ rg' = RefCheck(prf', FALSE)
Init == prf = <<>> /\ openp = <<>> /\ w = 0 /\ rn = RefCheck(<<>>, TRUE) /\ rg = RefCheck(<<>>, FALSE)

\* a rule item (anything but a block) at the end of the innermost open block, or of the top level
AddItem == LET path == openp  its == ItemsAt(prf, path)  i == Len(its)  pos == Append(path, i)
               pool == CitePool(path, pos)  pool0 == { c \in pool : CW(pos, c) = 0 } IN
           /\ i < Cap(path) /\ CountLeaves(prf) < MaxLeaves
           /\ \E rl \in Rules \ {"subproof"} : \E off \in OffsFor(Budget - w) : \E q \in IdPrefixes(path) : \E a \in Args(rl, LastC(its)) :
              \E n \in NCites(rl) :
              LET w1 == w + (IF off = 0 THEN 0 ELSE 1) + a.w + (IF n = Arity(rl) THEN 0 ELSE 1) IN
              /\ w1 <= Budget
              /\ ~(rl \in Unmodelled /\ a.ak = Sig(rl) /\ n = PremCount(rl))        \* outside the language of the oracle
              /\ \E cs \in Tuples(IF Budget - w1 <= 0 THEN pool0 ELSE pool, n) :
                 LET w2 == w1 + SumW(pos, cs) IN
                 /\ w2 <= Budget
                 /\ LET nat == NatOf(rl, a, cs, prf) IN
                    \E t \in ThOpts(rl, nat) :
                    /\ w2 + t.w <= Budget
                    /\ prf' = AppendAt(prf, path, 1, Item(Append(q, i + off), rl, a, cs, t.th, nat))
                    /\ w' = w2 + t.w /\ UNCHANGED openp
                    /\ (IF path = <<>> THEN EmitObj(prf') ELSE TRUE) /\ Ghost

\* the OBJECT of an earlier rule item is placed once more, at the end of the current list (same identifier, same
\* citations, same stated sequent - it is the same ProofItem)
AddAlias == LET path == openp  i == Len(ItemsAt(prf, path)) IN
            /\ i < Cap(path) /\ CountLeaves(prf) < MaxLeaves /\ CountAlias(prf) < MaxAlias
            /\ \E o \in { o \in AllPos(prf) : ItemAt(prf, o).rule # "subproof" /\ ItemAt(prf, o).alias = <<>> } :
               /\ prf' = AppendAt(prf, path, 1, [ItemAt(prf, o) EXCEPT !.alias = o])
               /\ UNCHANGED <<openp, w>>
               /\ (IF path = <<>> THEN EmitObj(prf') ELSE TRUE) /\ Ghost

OpenBlock == LET path == openp  i == Len(ItemsAt(prf, path)) IN
             /\ i < Cap(path) /\ Len(path) < MaxDepth /\ "subproof" \in Rules /\ CountBlocks(prf) < MaxBlocks
             /\ \E off \in OffsFor(Budget - w) : \E q \in IdPrefixes(path) :
                LET w2 == w + (IF off = 0 THEN 0 ELSE 1) IN
                /\ w2 <= Budget
                /\ prf' = AppendAt(prf, path, 1, Item(Append(q, i + off), "subproof", NoArg, <<>>, NoneS, NoneS))
                /\ w' = w2 /\ openp' = Append(path, i) /\ Ghost

\* the innermost open block is closed: its stated sequent is chosen relative to what its last item yields
CloseBlock == /\ openp # <<>>
              /\ LET blk == ItemAt(prf, openp) IN
                 /\ Len(blk.sub) >= 1
                 /\ LET nat == Eff(blk.sub[Len(blk.sub)]) IN
                    \E t \in ThOpts("subproof", nat) :
                    /\ w + t.w <= Budget
                    /\ prf' = CloseAt(prf, openp, 1, t.th, nat)
                    /\ w' = w + t.w /\ openp' = SubSeq(openp, 1, Len(openp) - 1)
                    /\ (IF Len(openp) = 1 THEN EmitObj(prf') ELSE TRUE) /\ Ghost

Next == AddItem \/ AddAlias \/ OpenBlock \/ CloseBlock
Spec == Init /\ [][Next]_vars

\* ---------------------------------------------------------------- properties of the reference checker
RG == rg
RN == rn
\* gap-free accepted proofs verify only tautologies (the registered theorem T1 is one)
RefSound == RN.ok => \A v \in RN.V : Valid(v[2])
\* with gaps disallowed no placeholder at any depth (including the gap macro) is tolerated
RefGapFree == RN.ok => Placeholders(prf) = <<>>
\* with gaps allowed the collected gaps are exactly the placeholders present
RefGapCount == RG.ok => BagEq(RG.gaps, Placeholders(prf))
\* the two modes agree: no_gaps acceptance = acceptance with gaps allowed and none met (the T spec relies on this)
RefModes == /\ RN.ok <=> (RG.ok /\ RG.gaps = <<>>)
            /\ RN.ok => RN.V = RG.V
\* nothing is verified at a position that is not in the object, nothing from an empty line
RefPositions == \A v \in RG.V : v[1] \in AllPos(prf) /\ ItemAt(prf, v[1]).rule # ""
\* the scope is small enough for the oracle to decide everything
RefDecides == ~RG.big /\ ~RN.big
=============================================================================
