--------------------------- MODULE C18_AletheTrace ---------------------------
(* T-specification for C18.  Events come from the real veriT step evaluators (harness/drivers/c18.py):                *)
(*   [tid, key, rule, mut, prems <<[h,c]>>, cl, sizes, coeffs, inst, ctx, outcome, result [h,c]]                      *)
(* Clauses (evaluated on every ACCEPTED step of a rule whose conclusion does not depend on a context):               *)
(*   Entailed    the result sequent holds in every interpretation in which all premise sequents hold, in the first    *)
(*               tier (finite models E / arithmetic grid A, C18_Sem) whose vocabulary covers the step                 *)
(*   HypsSubset  hyps(result) \subseteq union of hyps(premises)                                                       *)
(* kind "proof" events (whole synthetic proofs through ProofReconstruction.validate_step):                            *)
(*   Refutation  an accepted proof ending in the empty clause => the formulas it assumed (plus the hypotheses left in  *)
(*               the final theorem) are jointly unsatisfiable                                                         *)
(* Context rules (refl bind sko_ex sko_forall) claim their conclusion under the variable mapping of the enclosing     *)
(* anchor: their events are recorded but never judged (nt = FALSE).  onepoint (closed conclusion, no premise used) is  *)
(* judged as it stands; let (discharges x = s) is judged with the universal closure of the discharged variables.      *)
(* Divergence (informational): an intended instance of the reference schema was refused by the code; the final       *)
(* theorem of a proof depends on a formula that was not assumed at top level (a local assumption left its subproof).  *)
EXTENDS C18_Sem, TraceLib
ContextRules == {"verit_refl", "verit_bind", "verit_sko_ex", "verit_sko_forall"}
IsProof(e) == e.rule = "proof"
Judged(e) == e.outcome = "accepted" /\ e.rule \notin ContextRules /\ ~IsProof(e)
\* the final theorem of an accepted proof:  hyps |- false
\* what an accepted proof ending in the empty clause claims: the formulas it assumed at top level (as recorded by the code) together
\* with the hypotheses left in its final theorem are jointly unsatisfiable
ProofAssumed(e) == e.assumed \o e.result.h
ProofPrems(e) == [k \in 1..Len(ProofAssumed(e)) |-> [h |-> <<>>, c |-> ProofAssumed(e)[k]]]
ProofGoal(e) == [h |-> <<>>, c |-> FalseC]
EndsEmpty(e) == e.outcome = "accepted" /\ e.result.c = FalseC
\* informational: the final theorem depends on a formula that was not assumed at top level (a local assumption escaped its subproof)
AssumedOnly(e) == HypSet(e.result) \subseteq { e.assumed[k] : k \in 1..Len(e.assumed) }
EntailedIn(k, prems, res) == IF k = "E" THEN EntailedX(prems, res, NModel) ELSE IF k = "A" THEN EntailedA(prems, res, Grid) ELSE TRUE
\* verdict of one event: [f |-> set of failing clauses, nt |-> the consequence clause was really evaluated]; the tier is computed once
ProofVerdict(e) ==
  IF ~EndsEmpty(e) THEN [f |-> {}, nt |-> FALSE]
  ELSE LET k == Tier(ProofPrems(e), ProofGoal(e)) IN
       [f |-> IF ~EntailedIn(k, ProofPrems(e), ProofGoal(e)) THEN {"Refutation"} ELSE {}, nt |-> k # "none"]
StepVerdict(e) ==
  IF ~Judged(e) THEN [f |-> {}, nt |-> FALSE]
  ELSE IF e.rule \in ClosureRules THEN
       [f |-> (IF ~EntailedStep(e.rule, e.prems, e.result) THEN {"Entailed"} ELSE {}) \cup (IF HypsSubset(e.prems, e.result) THEN {} ELSE {"HypsSubset"}),
        nt |-> TierStep(e.rule, e.prems, e.result) # "none"]
  ELSE LET k == Tier(e.prems, e.result) IN
       [f |-> (IF ~EntailedIn(k, e.prems, e.result) THEN {"Entailed"} ELSE {}) \cup (IF HypsSubset(e.prems, e.result) THEN {} ELSE {"HypsSubset"}),
        nt |-> k # "none"]
Verdict(e) == IF IsProof(e) THEN ProofVerdict(e) ELSE StepVerdict(e)
Diverges(e) == IF IsProof(e) THEN EndsEmpty(e) /\ ~AssumedOnly(e) ELSE e.mut = "correct" /\ e.outcome # "accepted"
TNext == LET e == Trace[l] v == Verdict(e) IN TStep(e.tid, v.f, v.nt, Diverges(e))
TSpec == TInit /\ [][TNext]_l
=============================================================================
