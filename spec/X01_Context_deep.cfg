SPECIFICATION Spec
CONSTANTS MaxOps = 4
 MaxDepth = 3
 ThNames = {"xb"}
 VSets = {"v1", "v2"}
 Record = TRUE
 EmitAll = TRUE
 ExitMode = "entry"
 SetCtxMode = "replace"
 LoadMode = "fresh"
 CacheLoadMode = "restore"
INVARIANT CtxtRestored
INVARIANT ThyRestored
INVARIANT SetContextReplaces
INVARIANT PrevContextUntouched
INVARIANT CachedTheoryUntouched
INVARIANT FramesAreStack
CHECK_DEADLOCK FALSE
