SPECIFICATION Spec
CONSTANTS Consts = {a, b, c, d, e, g}
 MaxOps = 5
 Queries = FALSE
 ChainMode = TRUE
 EmitAll = FALSE
INVARIANT TestCorrect
INVARIANT ExplainCorrect
INVARIANT QueryCorrect
INVARIANT AlwaysSound
INVARIANT RepIdempotent
INVARIANT ClassListsMatch
INVARIANT ForestMatchesRep
INVARIANT ForestLabelsMerged
INVARIANT LookupComplete
CHECK_DEADLOCK FALSE
