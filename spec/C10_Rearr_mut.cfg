SPECIFICATION Spec
CONSTANTS SeedLeaves = 2
 MaxLeaves = 4
 PropMembers = 2
 MaxMembers = 3
 MaxNnfSize = 7
 MaxNum = 4
 Rich = FALSE
INVARIANT TypeInv
INVARIANT PolyPreserved
INVARIANT MembersPreserved
INVARIANT TablePreserved
INVARIANT AtomsPreserved
CHECK_DEADLOCK FALSE
