----------------------------- MODULE X02_Export -----------------------------
(* S-specification of X02 (a)-(d): a proof term is BUILT node by node (kernel/proofterm.py ProofTerm(rule, args,      *)
(* prevs): primitive rules of lib/Kernel.tla, a theorem, stated gaps, atoms standing for lines of the enclosing       *)
(* proof), then EXPORTED below the goal line of an enclosing proof (ProofTerm.export(prefix, subproof)), then          *)
(* EMBEDDED the way the callers do it (a block under the goal line / the goal's place among its siblings).             *)
(*   state   host   : which enclosing proof (H0 none, H1 goal at <<2>>, H2 goal at <<1,1>> inside a block)             *)
(*           nodes  : the DAG (X02_Defs); the proof term is the LAST node                                             *)
(*           sub    : the subproof flag;  lines : the export;  whole : the enclosing proof after embedding             *)
(*   actions AddLeaf, AddAtom, AddUnary, AddBinary (premises = any earlier nodes), Export(sub) (enabled when every node  *)
(*           is used and the nodes are numbered in depth-first order: each DAG of <= MaxNodes nodes once), Embed         *)
(*   property (invariants): the clauses of X02_Defs on `lines` and `whole`, and WholeChecks: every line is the         *)
(*           application of its rule to the sequents of the lines it cites, a stated gap, or a block proved by its     *)
(*           last line (the reference checker, lib/Kernel.tla)                                                        *)
(* With Emit = TRUE every behaviour is printed at Embed and replayed on the real code (harness/drivers/x02.py).        *)
EXTENDS X02_Defs, Kernel, Json
CONSTANTS MaxNodes, HostIds, Emit, WithSubst

vA == <<"var","A",BoolT>>       vB == <<"var","B",BoolT>>
sP == <<"svar","P",BoolT>>
TrueC == <<"const","true",BoolT>>
NoArg == <<"none">>
AN == [k |-> "none", t |-> NoArg, sv |-> <<>>, s |-> ""]
AT(t) == [k |-> "term", t |-> t, sv |-> <<>>, s |-> ""]
AI(sv) == [k |-> "inst", t |-> NoArg, sv |-> sv, s |-> ""]
AS(s) == [k |-> "str", t |-> NoArg, sv |-> <<>>, s |-> s]
InstPA == << <<"P", vA>> >>
TheoremTh(name) == IF name = "trueI" THEN Sq({}, TrueC) ELSE ErrS
CanProve(x, s) == x.c = s.c /\ x.h \subseteq s.h                    \* Thm.can_prove
\* the reference rule application (P = sequents of the cited lines)
ApplyRule(rule, arg, P) ==
  CASE rule = "assume" /\ Len(P) = 0 -> Assume(arg.t)
    [] rule = "reflexive" /\ Len(P) = 0 -> Reflexive(arg.t)
    [] rule = "theorem" /\ Len(P) = 0 -> TheoremTh(arg.s)
    [] rule = "implies_intr" /\ Len(P) = 1 -> ImpliesIntr(arg.t, P[1])
    [] rule = "symmetric" /\ Len(P) = 1 -> Symmetric(P[1])
    [] rule = "substitution" /\ Len(P) = 1 -> Substitution([ty |-> <<>>, sv |-> arg.sv], P[1])
    [] rule = "implies_elim" /\ Len(P) = 2 -> ImpliesElim(P[1], P[2])
    [] rule = "equal_elim" /\ Len(P) = 2 -> EqualElim(P[1], P[2])
    [] rule = "transitive" /\ Len(P) = 2 -> Transitive(P[1], P[2])
    [] OTHER -> ErrS
Keep(th) == ~IsErrS(th) /\ SeqWellTyped(th) /\ Cardinality(th.h) <= 2 /\ Size(th.c) <= 9

\* ---- the enclosing proofs (lines before the goal are assumptions; the lines after it use the goal) ----
HLine(id, rule, arg, prevs, th) == [id |-> id, rule |-> rule, arg |-> arg, prevs |-> prevs, th |-> th]
GoalOf(h) == CASE h = "H0" -> <<>> [] h = "H1" -> <<2>> [] h = "H2" -> <<1, 1>>
HostLines(h, g) ==          \* g = the goal's sequent
  CASE h = "H0" -> <<>>
    [] h = "H1" -> << HLine(<<0>>, "assume", AT(vA), <<>>, Assume(vA)),
                      HLine(<<1>>, "assume", AT(Imp(vA, vB)), <<>>, Assume(Imp(vA, vB))),
                      HLine(<<2>>, "sorry", AN, <<>>, g),
                      HLine(<<3>>, "implies_intr", AT(vA), << <<2>> >>, ImpliesIntr(vA, g)) >>
    [] h = "H2" -> << HLine(<<0>>, "assume", AT(vA), <<>>, Assume(vA)),
                      HLine(<<1>>, "subproof", AN, <<>>, ImpliesIntr(vB, g)),
                      HLine(<<1, 0>>, "assume", AT(Imp(vA, vB)), <<>>, Assume(Imp(vA, vB))),
                      HLine(<<1, 1>>, "sorry", AN, <<>>, g),
                      HLine(<<1, 2>>, "implies_intr", AT(vB), << <<1, 1>> >>, ImpliesIntr(vB, g)),
                      HLine(<<2>>, "implies_intr", AT(vA), << <<1>> >>, ImpliesIntr(vA, ImpliesIntr(vB, g))) >>
\* lines of the enclosing proof that the goal line may cite
HostAtoms(h) == LET H == HostLines(h, Assume(vA)) g == GoalOf(h) IN
   { H[i] : i \in { j \in 1..Len(H) : LCanDependOn(g, H[j].id) /\ H[j].rule = "assume" } }

\* ---- node instances ----
Leaves == { [rule |-> "assume", arg |-> AT(t), th |-> Assume(t)] : t \in {vA, vB, Imp(vA, vB)} }
     \cup { [rule |-> "sorry", arg |-> AN, th |-> th] : th \in { Sq({vA}, vA), Sq({}, Imp(vA, vB)), Sq({}, MkEq(vA, vB)) }
                                                              \cup (IF WithSubst THEN { Sq({}, Imp(sP, sP)) } ELSE {}) }
     \cup { [rule |-> "reflexive", arg |-> AT(vA), th |-> Reflexive(vA)] }
     \cup { [rule |-> "theorem", arg |-> AS("trueI"), th |-> TheoremTh("trueI")] }
UnaryInst == { [rule |-> "implies_intr", arg |-> AT(t)] : t \in {vA, vB} }
        \cup { [rule |-> "symmetric", arg |-> AN] }
        \cup (IF WithSubst THEN { [rule |-> "substitution", arg |-> AI(InstPA)] } ELSE {})
BinaryRules == {"implies_elim", "equal_elim", "transitive"}

VARIABLES host, nodes, phase, sub, lines, whole
vars == <<host, nodes, phase, sub, lines, whole>>
Node(rule, arg, prems, th, aid) == [rule |-> rule, arg |-> arg, prems |-> prems, th |-> th, aid |-> aid]
Root == Len(nodes)
Init == host \in HostIds /\ nodes = <<>> /\ phase = "build" /\ sub = TRUE /\ lines = <<>> /\ whole = <<>>
Building == phase = "build" /\ Len(nodes) < MaxNodes
\* a node that no later node cites must still be cited: only the latest node and one more per future node can be, so a DAG with
\* more loose nodes than nodes still to come can never become a proof term that uses every node (sound pruning of the search)
Loose(N) == { n \in 1..(Len(N) - 1) : \A m \in (n + 1)..Len(N) : n \notin XSetOf(N[m].prems) }
Viable(N) == Cardinality(Loose(N)) <= MaxNodes - Len(N)
AddLeaf == /\ Building
           /\ \E x \in Leaves : nodes' = Append(nodes, Node(x.rule, x.arg, <<>>, x.th, <<>>)) /\ Viable(nodes')
           /\ UNCHANGED <<host, phase, sub, lines, whole>>
AddAtom == /\ Building
           /\ \E a \in HostAtoms(host) : nodes' = Append(nodes, Node("atom", AN, <<>>, a.th, a.id)) /\ Viable(nodes')
           /\ UNCHANGED <<host, phase, sub, lines, whole>>
AddUnary == /\ Building /\ nodes # <<>>
            /\ \E x \in UnaryInst : \E p \in 1..Root :
                 LET th == ApplyRule(x.rule, x.arg, <<nodes[p].th>>) IN
                 /\ Keep(th)
                 /\ (x.rule = "substitution" => sP \in UNION { SVarsOf(y) : y \in nodes[p].th.h \cup {nodes[p].th.c} })
                 /\ nodes' = Append(nodes, Node(x.rule, x.arg, <<p>>, th, <<>>)) /\ Viable(nodes')
            /\ UNCHANGED <<host, phase, sub, lines, whole>>
AddBinary == /\ Building /\ nodes # <<>>
             /\ \E r \in BinaryRules : \E p \in 1..Root : \E q \in 1..Root :
                  LET prems == <<p, q>>
                      th == ApplyRule(r, AN, <<nodes[prems[1]].th, nodes[prems[2]].th>>) IN
                  /\ Keep(th)
                  /\ nodes' = Append(nodes, Node(r, AN, prems, th, <<>>)) /\ Viable(nodes')
             /\ UNCHANGED <<host, phase, sub, lines, whole>>
\* the proof term is exported when every node built is part of it and the numbering is the canonical one
Export(s) == /\ phase = "build" /\ nodes # <<>> /\ nodes[Root].rule # "atom"
             /\ XPostOrder(nodes, Root) = [i \in 1..Root |-> i]
             /\ XApplicable(GoalOf(host), s)
             /\ sub' = s /\ lines' = XRefExport(nodes, Root, GoalOf(host), s) /\ phase' = "exported"
             /\ UNCHANGED <<host, nodes, whole>>
NodeJ(n) == [rule |-> n.rule, arg |-> n.arg, prems |-> n.prems, th |-> n.th, aid |-> n.aid]
Embed == /\ phase = "exported"
         /\ whole' = XEmbed(HostLines(host, nodes[Root].th), GoalOf(host), lines, sub) /\ phase' = "embedded"
         /\ (Emit => PrintT(<<"X02V", ToJson([host |-> host, sub |-> sub, nodes |-> [i \in 1..Len(nodes) |-> NodeJ(nodes[i])]])>>))
         /\ UNCHANGED <<host, nodes, sub, lines>>
Next == AddLeaf \/ AddAtom \/ AddUnary \/ AddBinary \/ (\E s \in BOOLEAN : Export(s)) \/ Embed
Spec == Init /\ [][Next]_vars

\* ---- the property ----
Exported == phase \in {"exported", "embedded"}
G == GoalOf(host)
Contiguous == Exported => XContiguous(lines, G, sub)
CitationsEarlierVisible == Exported => XCitations(lines, nodes)
LastLineIsSequent == Exported => XLastIsRoot(lines, nodes, Root)
LineProvesItsNode == Exported => XFaithful(lines, nodes, Root)
SharedOnce == Exported => XSharedOnce(lines)
GapsAreSorries == Exported => XNoInventedGap(lines, nodes, Root)
\* the reference checker: a line is a stated gap, a block proved by its last line, or its rule applied to the cited sequents
ThOf(W, N, p) == IF p \in XIds(W) THEN W[XIdx(W, p)].th ELSE ErrS
LineOK(W, i) ==
  LET ln == W[i] IN
  CASE ln.rule = "sorry" -> TRUE
    [] ln.rule = "subproof" ->
         LET K == { j \in 1..Len(W) : Len(W[j].id) = Len(ln.id) + 1 /\ XIsPrefix(ln.id, W[j].id) } IN
         K # {} /\ CanProve(W[CHOOSE j \in K : \A m \in K : m <= j].th, ln.th)
    [] OTHER -> LET r == ApplyRule(ln.rule, ln.arg, [k \in 1..Len(ln.prevs) |-> ThOf(W, nodes, ln.prevs[k])]) IN
                ~IsErrS(r) /\ CanProve(r, ln.th)
WholeContiguous == phase = "embedded" => XWholeContiguous(whole)
WholeCitations == phase = "embedded" => XWholeCitations(whole)
WholeChecks == phase = "embedded" => \A i \in 1..Len(whole) : LineOK(whole, i)
GoalStillStated == phase = "embedded" => XGoalStillStated(HostLines(host, nodes[Root].th), G, whole, lines, sub)
\* sanity (coverage of the sharing patterns is counted on the emitted vectors by the harness)
TypeOK == XWellFormed(nodes) /\ phase \in {"build", "exported", "embedded"}
=============================================================================
