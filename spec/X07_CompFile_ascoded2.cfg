SPECIFICATION Spec
CONSTANTS MaxOps = 4
 MaxItems = 2
 MaxSteps = 2
 AsCoded = TRUE
 Record = FALSE
 EmitAll = FALSE
INVARIANT LabelsNeverAnotherNode
CHECK_DEADLOCK FALSE
