SPECIFICATION Spec
CONSTANTS Coef2 <- R22
 Const2 <- R22
 MinC = 1
 MaxC = 3
 CoefA3 <- S202
 CoefB3 <- R11
 Const3 <- R11
 B = 20
 BU = 10
 BS = 8
 BS0 = 13
 K = 12
 Emitting = TRUE
INVARIANT TypeOK
INVARIANT RealSound
INVARIANT ContrSound
INVARIANT DarkSound
INVARIANT ExactComplete
INVARIANT FMExact
INVARIANT BoxStable
INVARIANT SpecialisationOK
POSTCONDITION Emit
CHECK_DEADLOCK FALSE
