SPECIFICATION Spec
CONSTANTS Coef2 <- R22
 Const2 <- R22
 MinC = 1
 MaxC = 3
 CoefA3 <- S202
 CoefB3 <- S11
 Const3 <- R11
 CoefR <- R11
 ConstR <- R11
 B = 16
 BU = 7
 BS = 6
 BS0 = 11
 K = 12
INVARIANT TypeOK
INVARIANT OrigInClass
INVARIANT RealSound
INVARIANT ContrSound
INVARIANT DarkSound
INVARIANT ExactComplete
INVARIANT FMExact
INVARIANT BoxStable
INVARIANT SpecialisationOK
POSTCONDITION Covered
CHECK_DEADLOCK FALSE
