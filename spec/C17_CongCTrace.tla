--------------------------- MODULE C17_CongCTrace ---------------------------
(* T-specification for C17.  Events come from the real code (harness/drivers/c17.py):       *)
(*  kind "core": a merge sequence `hist` over constants `consts` run on prover/congc.py      *)
(*        CongClosure; raw projection of rep / class_list / use_list / lookup / proof_forest *)
(*        / pending, the pairs test reports equal (teq, asked on all pairs of `seen`), and   *)
(*        for every equal pair the input equations explain used.                             *)
(*  kind "hol" : one call on CongClosureHOL; terms flattened to names (U), application      *)
(*        equations feqs (n = nf(na) as <<"f", nf, na, n>>), merged equations ceqs, the      *)
(*        answers of test, and for explain the theorem (sides and hypotheses as names),      *)
(*        its gaps and what theory.check_proof returned for the exported proof.              *)
(*  kind "uf"  : a union sequence on util/unionfind.py UnionFind; parent map and find.       *)
(* Clauses (names of failing clauses are the verdict; all evaluated here by TLC):            *)
(*  TestSound / TestComplete  test(s,t) <=> <<s,t>> \in Closure(merged so far), all pairs    *)
(*  ExplainYields   explain returns an explanation for every entailed pair test reports equal *)
(*  ExplainMerged / ExplainEntails   Explains(used, merged, s, t)                             *)
(*  Total       merge / test raised                                                          *)
(*  HolTest, HolPartition  the same for the wrapper (queried pairs; all indexed terms)       *)
(*  HolYields, HolYieldsRefl  an equality reported by test has an explanation theorem        *)
(*  HolGapFree  a gap of the theorem is a merged equation that was merged WITHOUT a proof    *)
(*        term (no gap at all when every merge carried one; the driver then checks the       *)
(*        exported proof with no_gaps, judged by HolChecked)                                 *)
(*  HolStates, HolChecked, HolHyps, HolEntails   the theorem states s = t, the checker       *)
(*        accepts the exported proof with the same statement, hypotheses and gaps are merged *)
(*        equations, and they entail the equality                                            *)
(*  UfPartition, UfFindTerminates, UfTotal   union-find = equivalence closure of the unions  *)
(* Divergence (informational): the projected record differs from the I specification's       *)
(* deterministic run (C17_CongCAlgo!Run) on the same merge sequence.                         *)
EXTENDS C17_Closure, C17_CongCAlgo, TraceLib

SetOf(s) == { s[i] : i \in 1..Len(s) }
Cl(U, E) == IF Cardinality(U) <= 4 THEN Closure(U, E) ELSE ClosureFast(U, E)

\* ------------------------------------------------------------------ core
CoreClauses(e) ==
  LET U == SetOf(e.consts)
      E == SetOf(e.hist)
      cl == Cl(U, E)
      Seen == SetOf(e.seen)
      Teq == { <<x[1], x[2]>> : x \in SetOf(e.teq) }
      Ok == { x \in SetOf(e.explains) : x[3] = "ok" } IN
  IF e.exc # "" THEN {"Total"}
  ELSE (IF \E p \in Teq : p \notin cl THEN {"TestSound"} ELSE {})
       \cup (IF \E p \in Seen \X Seen : p \in cl /\ p \notin Teq THEN {"TestComplete"} ELSE {})
       \cup (IF \E x \in SetOf(e.explains) : x[3] # "ok" /\ <<x[1], x[2]>> \in cl THEN {"ExplainYields"} ELSE {})
       \cup (IF \E x \in Ok : \E y \in SetOf(x[4]) : ~InE(y, E) THEN {"ExplainMerged"} ELSE {})
       \cup (IF \E x \in Ok : (\A y \in SetOf(x[4]) : InE(y, E)) /\ LET rm == RepMap(U, SetOf(x[4])) IN rm[x[1]] # rm[x[2]]
             THEN {"ExplainEntails"} ELSE {})
CoreNontrivial(e) == e.exc = "" /\ Len(e.hist) > 0 /\ Len(e.seen) > 0
\* comparison with the I specification (informational)
CoreDiverges(e) ==
  LET U == SetOf(e.consts)
      st == Run(U, e.hist)
      Seen == SetOf(e.seen)
      HasEdge == { x[1] : x \in SetOf(e.forest) } IN
  \/ e.exc # "" \/ e.pending # 0
  \/ \E x \in SetOf(e.rep) : st.rep[x[1]] # x[2]
  \/ \E x \in SetOf(e.classes) : st.cls[x[1]] # x[2]
  \/ \E x \in SetOf(e.use) : st.use[x[1]] # x[2]
  \/ { <<x[1], x[2], x[3]>> : x \in SetOf(e.lookup) } # { <<p[1], p[2], st.lk[p]>> : p \in { p \in U \X U : st.lk[p] # NoEq } }
  \/ \E x \in SetOf(e.forest) : st.pf[x[1]] # <<x[2], x[3]>>
  \/ \E c \in Seen \ HasEdge : st.pf[c] # NoEdge
  \/ \E x \in SetOf(e.explains) : x[3] # "ok" \/ (SameTree(st.pf, x[1], x[2]) /\ ExplainEqs(st.pf, x[1], x[2]) # SetOf(x[4]))

\* ------------------------------------------------------------------ HOL wrapper
HEq(h) == <<"c", h[1], h[2]>>
HolClauses(e) ==
  LET U == SetOf(e.U)
      CE == SetOf(e.ceqs)
      FE == SetOf(e.feqs)
      rm == RepMap(U, CE \cup FE)
      Idx == SetOf(e.idx)
      X == SetOf(e.explains)
      Ok == { x \in X : x.outcome = "ok" }
      Hyps(x) == SetOf(x.h) \cup { g.c : g \in SetOf(x.gaps) } IN
  (IF e.exc # "" \/ (\E x \in SetOf(e.tests) : x[3] # "ok") \/ (\E x \in X : ~x.tested) THEN {"Total"} ELSE {})
  \cup (IF \E x \in SetOf(e.tests) : x[3] = "ok" /\ (x[4] # (rm[x[1]] = rm[x[2]])) THEN {"HolTest"} ELSE {})
  \cup (IF \E x \in X : x.tested /\ (x.equal # (rm[x.s] = rm[x.t])) THEN {"HolTest"} ELSE {})
  \cup (IF \E m \in SetOf(e.eqm) : SetOf(m[2]) # { v \in Idx : rm[v] = rm[m[1]] } THEN {"HolPartition"} ELSE {})
  \cup (IF \E x \in X : x.equal /\ x.s # x.t /\ x.outcome # "ok" THEN {"HolYields"} ELSE {})
  \cup (IF \E x \in X : x.equal /\ x.s = x.t /\ x.outcome # "ok" THEN {"HolYieldsRefl"} ELSE {})
  \cup (IF \E x \in Ok : x.c # <<x.s, x.t>> THEN {"HolStates"} ELSE {})
  \cup (IF \E x \in Ok : x.chk # "accepted" \/ x.cc # <<x.s, x.t>> THEN {"HolChecked"} ELSE {})
  \cup (IF \E x \in Ok : \/ \E h \in Hyps(x) \cup SetOf(x.ch) : ~InE(HEq(h), CE)
                         \/ \E g \in SetOf(x.gaps) : Len(g.h) # 0
        THEN {"HolHyps"} ELSE {})
  \cup (IF \E x \in Ok : \E g \in SetOf(x.gaps) :
              ~\E i \in 1..Len(e.ceqs) : ~e.cpt[i] /\ (e.ceqs[i] = HEq(g.c) \/ e.ceqs[i] = <<"c", g.c[2], g.c[1]>>)
        THEN {"HolGapFree"} ELSE {})
  \cup (IF \E x \in Ok : LET r2 == RepMap(U, { HEq(h) : h \in { h \in Hyps(x) : h[1] \in U /\ h[2] \in U } } \cup FE) IN r2[x.s] # r2[x.t]
        THEN {"HolEntails"} ELSE {})
HolNontrivial(e) == e.exc = "" /\ (Len(e.tests) > 0 \/ Len(e.explains) > 0 \/ Len(e.ceqs) > 0)
HolDiverges(e) == e.pending # 0

\* ------------------------------------------------------------------ union-find
RECURSIVE UfUp(_,_,_)
UfUp(par, x, fuel) == IF par[x] = "" \/ fuel = 0 THEN x ELSE UfUp(par, par[x], fuel - 1)
UfClauses(e) ==
  LET U == SetOf(e.items)
      par == [x \in U |-> LET S == { p \in SetOf(e.parents) : p[1] = x } IN IF S = {} THEN "" ELSE (CHOOSE p \in S : TRUE)[2]]
      cyclic == \E x \in U : par[UfUp(par, x, Cardinality(U))] # ""
      fnd == [x \in U |-> LET S == { p \in SetOf(e.find) : p[1] = x } IN IF S = {} THEN "" ELSE (CHOOSE p \in S : TRUE)[2]]
      rm == RepMap(U, SetOf(e.ops)) IN
  (IF cyclic THEN {"UfFindTerminates"} ELSE {})
  \cup (IF ~cyclic /\ e.exc # "" /\ e.exc # "find:timeout" THEN {"UfTotal"} ELSE {})
  \cup (IF e.exc = "" /\ \E p \in U \X U : (fnd[p[1]] = fnd[p[2]]) # (rm[p[1]] = rm[p[2]]) THEN {"UfPartition"} ELSE {})
UfNontrivial(e) == e.exc = "" /\ Len(e.ops) > 0
UfDiverges(e) == e.exc = "find:timeout"

Clauses(e) == CASE e.kind = "core" -> CoreClauses(e) [] e.kind = "hol" -> HolClauses(e) [] e.kind = "uf" -> UfClauses(e) [] OTHER -> {"UnknownKind"}
Nontrivial(e) == CASE e.kind = "core" -> CoreNontrivial(e) [] e.kind = "hol" -> HolNontrivial(e) [] e.kind = "uf" -> UfNontrivial(e) [] OTHER -> FALSE
Diverges(e) == CASE e.kind = "core" -> CoreDiverges(e) [] e.kind = "hol" -> HolDiverges(e) [] e.kind = "uf" -> UfDiverges(e) [] OTHER -> FALSE
TNext == LET e == Trace[l] IN TStep(e.tid, Clauses(e), Nontrivial(e), Diverges(e))
TSpec == TInit /\ [][TNext]_l
=============================================================================
