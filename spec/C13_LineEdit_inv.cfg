SPECIFICATION Spec
CONSTANTS MaxOps = 3
 MaxLines = 15
 MaxPrevs = 3
 Shape = 1
 Record = FALSE
 EmitAll = FALSE
INVARIANT Contiguous
INVARIANT CitationsTrackItems
INVARIANT NoDangling
INVARIANT UidsDistinct
CHECK_DEADLOCK FALSE
