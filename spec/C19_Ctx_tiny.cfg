SPECIFICATION Spec
CONSTANTS MaxH = 1
 HPairs <- HP3
 NBodies = 1
 Idents <- I12
INVARIANT StepsSameValue
INVARIANT FactsUnchanged
INVARIANT IdentCompared
POSTCONDITION Emit
CHECK_DEADLOCK FALSE
