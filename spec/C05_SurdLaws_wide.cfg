SPECIFICATION Spec
CONSTANTS Wide = TRUE
INVARIANTS Numeric Order Squares BigCases
CHECK_DEADLOCK FALSE
