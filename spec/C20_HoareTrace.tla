--------------------------- MODULE C20_HoareTrace ---------------------------
(* T-specification for C20.  Events come from the real code (harness/drivers/c20.py).                     *)
(*  kind "com" : imperative/com.py on (prog, pre, post):  vcs[i] = [t: computed condition tree,            *)
(*               s: printed string, r: tree re-parsed from s by parser2 (rok), h: HOL form of the line]     *)
(*     VcSound    : all computed conditions hold (decided exactly: guarded by the box conjunct) and some    *)
(*                  terminating execution from the precondition ends outside the postcondition              *)
(*     PrintParse : a re-parsed printed condition differs in meaning from the computed one at a box store   *)
(*     ParseFail  : a printed condition is rejected by the condition parser                                 *)
(*     HolMeaning : the HOL form shown with the condition differs in meaning from the computed one          *)
(*  kind "sem" : imp.eval_Sem on (prog, s0):                                                               *)
(*     EvalSemChecked : the theorem is accepted by the proof checker, unchanged and without hypotheses      *)
(*     EvalSemFinal   : it speaks about the given program and state, and its final state is Exec's          *)
(*  kind "vcg" : imp.vcg_norm on Valid pre prog post:                                                      *)
(*     VcgChecked : checker-accepted theorem  A1 --> ... --> An --> Valid pre prog post                     *)
(*     VcgSound   : as VcSound with the conditions A1..An                                                   *)
(* Divergences (informational): the code's conditions differ (up to NormB) from the reference generator's,  *)
(* the printed program re-parses to a program with another behaviour, a second compute_wp on the same       *)
(* object changes the list of conditions, an object with an annotation history (mode "hist": annotated for  *)
(* another precondition / postcondition / invariant before) shows other conditions than a fresh object.     *)
(* History events are judged by the same VcSound clause: program, last (pre, post), the conditions shown.   *)
EXTENDS C20_HoareSem, TraceLib

IBoxS == BoxOf(IntLo, IntHi)
NBoxS == BoxOf(NatLo, NatHi)
SameRun(a, b) == a[1] = b[1] /\ (a[1] = "ok" => a[2] = b[2])
SameSeq(a, b) == Len(a) = Len(b) /\ \A i \in 1..Len(a) : a[i] = b[i]
Norms(S) == { NormB(b) : b \in S }

\* ------------------------------------------------------------------------------------------- soundness core
\* [hold: the hypothesis "all conditions hold" is true and decided; term: some execution terminates; cex]
Judge(vcs, P, c, Q, box, lo, hi, needLower) ==
  LET hold == AllHold(vcs, box) /\ Decided(vcs, box, lo, hi, needLower)
      term == IF hold THEN Terminating(P, c, box) ELSE {}
  IN [hold |-> hold, nt |-> term # {}, cex |-> \E s \in term : ~EvalB(Q, Run(c, s)[2])]

\* ------------------------------------------------------------------------------------------- kind "com"
ComTrees(e) == [i \in 1..Len(e.vcs) |-> e.vcs[i].t]
ComWf(e) == /\ e.outcome = "ok" /\ WfC(e.prog) /\ WfB(e.pre) /\ WfB(e.post) /\ e.ntrees = Len(e.vcs)
            /\ \A i \in 1..Len(e.vcs) : WfB(e.vcs[i].t)
ComSafe(e) == /\ SafeC(e.prog, VCap) /\ SafeB(e.pre, VCap) /\ SafeB(e.post, VCap)
              /\ \A i \in 1..Len(e.vcs) : SafeB(e.vcs[i].t, IntHi)
OtherOK(t) == WfB(t) /\ SafeB(t, IntHi)
ComVerdict(e) ==
  LET ok == ComWf(e) /\ ComSafe(e)
      j == IF ok THEN Judge(ComTrees(e), e.pre, e.prog, e.post, IBoxS, IntLo, IntHi, TRUE) ELSE [hold |-> FALSE, nt |-> FALSE, cex |-> FALSE]
      n == Len(e.vcs)
      pp == ok /\ \E i \in 1..n : e.vcs[i].rok = "ok" /\ OtherOK(e.vcs[i].r) /\ ~SameMeaning(e.vcs[i].r, e.vcs[i].t, IBoxS)
      pf == e.outcome = "ok" /\ \E i \in 1..n : e.vcs[i].rok # "ok"
      hm == ok /\ \E i \in 1..n : OtherOK(e.vcs[i].h) /\ ~SameMeaning(e.vcs[i].h, e.vcs[i].t, IBoxS)
      dref == ok /\ e.mode = "fresh" /\ Norms({ e.vcs[i].t : i \in 1..n }) # Norms(RefVCs(e.pre, e.prog, e.post))
      drt == ok /\ (e.rtok # "ok" \/ (e.rt # e.prog /\ (~(WfC(e.rt) /\ SafeC(e.rt, VCap)) \/ \E s \in IBoxS : ~SameRun(Run(e.rt, s), Run(e.prog, s)))))
      dtw == ok /\ e.mode = "twice" /\ ~SameSeq(e.first, ComTrees(e))
      \* history: up to tautologies  A --> A  the object shows what a fresh object shows for the same triple
      dhi == ok /\ e.mode = "hist" /\
             (IF \A i \in 1..Len(e.first) : WfB(e.first[i])
              THEN Norms({ t \in { e.vcs[i].t : i \in 1..n } : ~Taut(t) }) # Norms({ t \in { e.first[i] : i \in 1..Len(e.first) } : ~Taut(t) })
              ELSE TRUE)
  IN [fails |-> (IF j.cex THEN {"VcSound"} ELSE {}) \cup (IF pp THEN {"PrintParse"} ELSE {})
                \cup (IF pf THEN {"ParseFail"} ELSE {}) \cup (IF hm THEN {"HolMeaning"} ELSE {}),
      nt |-> j.nt, dv |-> dref \/ drt \/ dtw \/ dhi]

\* ------------------------------------------------------------------------------------------- kind "sem"
RECURSIVE WfState(_), StateVal(_, _)
ClosedNat(v) == WfE(v) /\ NatE(v) /\ Closed(v) /\ BoundE(v, 0) < CAP
WfState(t) == CASE t[1] = "upd" -> Len(t) = 4 /\ WfState(t[2]) /\ t[3] \in Vars /\ ClosedNat(t[4])
                [] t[1] = "cf" -> Len(t) = 2 /\ ClosedNat(t[2])
                [] OTHER -> FALSE
StateVal(t, v) == IF t[1] = "upd" THEN (IF t[3] = v THEN EvalE(t[4], ZeroStore) ELSE StateVal(t[2], v))
                  ELSE EvalE(t[2], ZeroStore)
StoreOf(t) == [v \in Vars |-> StateVal(t, v)]
SemVerdict(e) ==
  LET ran == e.outcome = "ok"
      ok == /\ ran /\ WfC(e.prog) /\ NatC(e.prog) /\ SafeC(e.prog, VCap)
            /\ WfState(e.st) /\ StoreOf(e.st) = e.s0 /\ \A v \in Vars : e.s0[v] \in 0..VCap
      r == IF ok THEN Run(e.prog, e.s0) ELSE <<"div">>
      chk == ran /\ ~(e.chk = "accepted" /\ e.chk_hyps = 0 /\ e.hyps = 0 /\ e.chk_goal = e.goal)
      fin == ok /\ r[1] = "ok" /\ ~(e.goal[1] = e.prog /\ WfState(e.goal[2]) /\ StoreOf(e.goal[2]) = e.s0 /\ WfState(e.goal[3]) /\ StoreOf(e.goal[3]) = r[2])
  IN [fails |-> (IF chk THEN {"EvalSemChecked"} ELSE {}) \cup (IF fin THEN {"EvalSemFinal"} ELSE {}),
      nt |-> ok /\ r[1] = "ok", dv |-> e.prog # e.vprog]

\* ------------------------------------------------------------------------------------------- kind "vcg"
VcgVerdict(e) ==
  LET ran == e.outcome = "ok"
      n == Len(e.vcs)
      ok == /\ ran /\ WfC(e.prog) /\ NatC(e.prog) /\ SafeC(e.prog, VCap) /\ WfB(e.pre) /\ NatB(e.pre) /\ SafeB(e.pre, VCap)
            /\ WfB(e.post) /\ NatB(e.post) /\ SafeB(e.post, VCap)
            /\ \A i \in 1..n : WfB(e.vcs[i]) /\ NatB(e.vcs[i]) /\ SafeB(e.vcs[i], NatHi)
      j == IF ok THEN Judge(e.vcs, e.pre, e.prog, e.post, NBoxS, NatLo, NatHi, FALSE) ELSE [hold |-> FALSE, nt |-> FALSE, cex |-> FALSE]
      chk == ran /\ ~(/\ e.chk = "accepted" /\ e.chk_hyps = 0 /\ e.hyps = 0 /\ SameSeq(e.chk_vcs, e.vcs) /\ e.chk_concl = e.concl
                      /\ e.concl = <<e.pre, e.prog, e.post>>)
      dref == ok /\ Norms({ e.vcs[i] : i \in 1..n }) # Norms(RefVCs(e.pre, e.prog, e.post))
  IN [fails |-> (IF chk THEN {"VcgChecked"} ELSE {}) \cup (IF j.cex THEN {"VcgSound"} ELSE {}),
      nt |-> j.nt, dv |-> dref \/ e.prog # e.vprog]

Verdict(e) == CASE e.kind = "com" -> ComVerdict(e) [] e.kind = "sem" -> SemVerdict(e) [] e.kind = "vcg" -> VcgVerdict(e)
                [] OTHER -> [fails |-> {"UnknownEvent"}, nt |-> FALSE, dv |-> FALSE]
TNext == LET e == Trace[l]  v == Verdict(e) IN TStep(e.tid, v.fails, v.nt, v.dv)
TSpec == TInit /\ [][TNext]_l
=============================================================================
