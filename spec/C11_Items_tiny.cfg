SPECIFICATION Spec
CONSTANTS Depth = 1
 N = 2
 Rich = FALSE
INVARIANT ConservativeIfOK
INVARIANT AddedWellTyped
INVARIANT OnlyOKAdded
INVARIANT UniqueGround
POSTCONDITION Post
CHECK_DEADLOCK FALSE
