SPECIFICATION Spec
CONSTANTS MaxItems = 2
 MaxSub = 2
 MaxBlocks = 3
 MaxDepth = 2
 Budget = 1
 IdOffs <- IdOffs1
 Rules = {"assume", "substitution", "subproof"}
 Emit = TRUE
INVARIANT RefDecides
CHECK_DEADLOCK FALSE
