SPECIFICATION Spec
CONSTANTS
  NProc = 3
  NGuards = 0
  NAsgs = 0
  NInvs = 0
  TwoArr = FALSE
  Record = TRUE
  MaxSteps = 8
  WpMulti = 0
  RunSet = 1
  DoEmit = FALSE
  DoWp = FALSE
  DoRun = TRUE
INVARIANT Consistent
CHECK_DEADLOCK FALSE
