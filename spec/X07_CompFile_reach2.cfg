SPECIFICATION Spec
CONSTANTS MaxOps = 5
 MaxItems = 1
 MaxSteps = 2
 AsCoded = FALSE
 Record = FALSE
 EmitAll = FALSE
INVARIANT NeverTruncatingPerform
CHECK_DEADLOCK FALSE
