---------------------------- MODULE C08_InferImpl ----------------------------
(* I-specification for C08: the unification machine of syntax/infertype.py AS CODED.   *)
(*   state   : uf, reach  -- the two dictionaries over N internal type variables       *)
(*             status     -- "ok" | "rejected" (TypeInferenceException) | "cyclic" (a  *)
(*                           cycle-closing binding was accepted) | "subst" | "done" |  *)
(*                           "diverged"                                                *)
(*             calls      -- number of unify calls made                                *)
(*             ty, rounds -- tyinst and pass counter of the final substitution loop    *)
(*             bad        -- ghost: a successful unify call did not produce a unifier  *)
(*             used       -- number of variables mentioned so far (symmetry reduction: *)
(*                           variable k is first mentioned after 0..k-1; renaming the  *)
(*                           variables is a symmetry of the algorithm)                 *)
(*   actions : Unify(A1, A2) for ALL pairs of types over {bool, fun[, list]} and the N *)
(*             variables (every order of calls, every sharing pattern);                *)
(*             Finish (end of infer(): tyinst := uf); SubstPass (one pass of the       *)
(*             `while has_repl` loop, exactly as coded: in place, in index order).     *)
(*   CONSTANT ExactOccursCheck mirrors the code that is present (FALSE = union() tests *)
(*   the cached reach sets, as found; TRUE = it follows the current bindings); the     *)
(*   check sets it from a behavioural probe of the real type_infer (checks/c08.py).    *)
(*   Properties:                                                                       *)
(*     AcyclicOrRejected : a cyclic binding is never accepted (later unify calls and   *)
(*                         the final loop recurse / iterate forever on one)            *)
(*     SubstTerminates   : the final loop needs at most N passes (variant: number of   *)
(*                         unresolved levels), never "diverged"                        *)
(*     SubstIsResolve    : the loop computes the full resolution of every variable     *)
(*     UnifierOK         : every accepted call yields a unifier of its two arguments   *)
(*                         that still respects all earlier bindings                    *)
EXTENDS C08_InferAlgo
CONSTANTS N, MaxCalls, WithList, ExactOccursCheck

IV == 0..(N - 1)
Args == { Iv(k) : k \in IV } \cup {BoolT}
Types == Args \cup { FunT(a, b) : a \in Args, b \in Args } \cup (IF WithList THEN { ListT(a) : a \in Args } ELSE {})

VARIABLES uf, reach, status, calls, ty, rounds, bad, used
vars == <<uf, reach, status, calls, ty, rounds, bad, used>>

\* internal variables of a type in order of occurrence; canonical introduction order
RECURSIVE OccSeq(_), OccSeqArgs(_,_)
OccSeq(T) == IF IsIv(T) THEN <<IvIdx(T)>> ELSE IF T[1] = "tc" THEN OccSeqArgs(T[3], 1) ELSE <<>>
OccSeqArgs(Ts, i) == IF i > Len(Ts) THEN <<>> ELSE OccSeq(Ts[i]) \o OccSeqArgs(Ts, i + 1)
NotCanonical == N + 1
RECURSIVE UseAll(_,_,_)
UseAll(m, vs, i) == IF i > Len(vs) \/ m = NotCanonical THEN m
                    ELSE UseAll(IF vs[i] > m THEN NotCanonical ELSE IF vs[i] = m THEN m + 1 ELSE m, vs, i + 1)

St(u, r) == [uf |-> u, reach |-> r, ic |-> <<>>, isc |-> <<>>, st |-> "ok", err |-> ""]
Init == /\ uf = [k \in 1..N |-> Iv(k - 1)] /\ reach = [k \in 1..N |-> {}]
        /\ status = "ok" /\ calls = 0 /\ ty = <<>> /\ rounds = 0 /\ bad = FALSE /\ used = 0

Cyclic == CyclicUf(uf)
O == Opt(ExactOccursCheck, FALSE)
UnifyCall(A1, A2) ==
  /\ status = "ok" /\ calls < MaxCalls
  /\ used' = UseAll(used, OccSeq(A1) \o OccSeq(A2), 1) /\ used' # NotCanonical
  /\ LET s == Unify(St(uf, reach), A1, A2, O) IN
       /\ uf' = s.uf /\ reach' = s.reach
       /\ status' = IF s.st = "ok" THEN "ok" ELSE IF s.st = "cyc" THEN "cyclic" ELSE "rejected"
       /\ bad' = (bad \/ (s.st = "ok" /\ ~CyclicUf(s.uf) /\
                           (\/ Resolve(s.uf, A1) # Resolve(s.uf, A2)
                            \/ \E k \in 1..N : Resolve(s.uf, Iv(k - 1)) # Resolve(s.uf, uf[k]))))
  /\ calls' = calls + 1 /\ UNCHANGED <<ty, rounds>>

\* end of infer(): tyinst := uf
Finish ==
  /\ status = "ok" /\ status' = "subst" /\ ty' = uf
  /\ UNCHANGED <<uf, reach, calls, rounds, bad, used>>

\* one pass of:  for i in range(num_internal): T = tyinst[i]; if T has a bound internal variable: tyinst[i] = T.subst(tyinst)
UnspecNames == { k \in IV : uf[k + 1] = Iv(k) }
NeedsRepl(T) == \E v \in IvsIn(T) : v \notin UnspecNames
TyAL(t) == [k \in 1..N |-> <<IvNameSeq[k], t[k]>>]
RECURSIVE Pass(_,_)
Pass(t, i) == IF i > N THEN t ELSE Pass(IF NeedsRepl(t[i]) THEN [t EXCEPT ![i] = TSubst(t[i], TyAL(t))] ELSE t, i + 1)
SubstPass ==
  /\ status = "subst"
  /\ IF \E i \in 1..N : NeedsRepl(ty[i])
     THEN IF rounds >= N THEN status' = "diverged" /\ UNCHANGED <<ty, rounds>>
          ELSE ty' = Pass(ty, 1) /\ rounds' = rounds + 1 /\ status' = "subst"
     ELSE status' = "done" /\ UNCHANGED <<ty, rounds>>
  /\ UNCHANGED <<uf, reach, calls, bad, used>>

Next == (\E A1 \in Types, A2 \in Types : UnifyCall(A1, A2)) \/ Finish \/ SubstPass
Spec == Init /\ [][Next]_vars

TypeOK == /\ Len(uf) = N /\ Len(reach) = N /\ \A k \in 1..N : reach[k] \subseteq IV
          /\ status \in {"ok", "rejected", "cyclic", "subst", "done", "diverged"}
\* flatness of the union-find: an entry is a self-representative, an alias of one, or a proper binding
Flat == status = "ok" => \A k \in 1..N : IsIv(uf[k]) => uf[IvIdx(uf[k]) + 1] = uf[k]
\* (the second conjunct cross-checks the incremental detection in Union against the whole binding graph)
AcyclicOrRejected == status # "cyclic" /\ (status \in {"ok", "subst", "done", "diverged"} => ~Cyclic)
SubstTerminates == status # "diverged"
SubstIsResolve == status = "done" => \A k \in 1..N : ty[k] = Resolve(uf, Iv(k - 1))
UnifierOK == ~bad
\* sanity (expected to be VIOLATED: used by the check to show that the interesting states are reachable)
NeverCyclic == ~Cyclic
NeverDone == status # "done"
=============================================================================
