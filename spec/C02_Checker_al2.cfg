SPECIFICATION Spec
CONSTANTS MaxItems = 2
 MaxSub = 2
 MaxBlocks = 1
 MaxDepth = 1
 MaxLeaves = 2
 Lean = FALSE
 Budget = 2
 IdOffs <- IdOffs3
 Rules = {"assume", "substitution", "subproof"}
 ArgKinds = {}
 ArityOffs <- ArityOffs1
 MaxAlias = 1
 Emit = TRUE
INVARIANT RefSound
INVARIANT RefGapFree
INVARIANT RefGapCount
INVARIANT RefModes
INVARIANT RefPositions
INVARIANT RefDecides
CHECK_DEADLOCK FALSE
