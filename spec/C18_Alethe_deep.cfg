SPECIFICATION Spec
CONSTANTS Rich = TRUE
 MutDepth = 3
INVARIANT SchemaTyped
INVARIANT RefSound
INVARIANT DbSound
INVARIANT NearMissRefuted
CHECK_DEADLOCK FALSE
