SPECIFICATION Spec
CONSTANTS Level = 3
 MutDepth = 3
INVARIANT SchemaTyped
INVARIANT RefSound
INVARIANT DbSound
INVARIANT NearMissRefuted
CHECK_DEADLOCK FALSE
