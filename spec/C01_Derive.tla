------------------------------ MODULE C01_Derive ------------------------------
(* S-specification for C01, second machine: a DERIVATION as a sequence of steps.          *)
(* State: steps = << [rule, arg, prems, res] ... >>.  Action Derive appends any applicable *)
(* rule instance whose premises are results of earlier steps (arguments from the pools of  *)
(* C01_Rules).  TLC explores all derivations of <= MaxLen steps exhaustively for small      *)
(* MaxLen, and random deep ones under -simulate; every finished derivation is printed and   *)
(* replayed as a GAP-FREE proof object through the real checker.                            *)
(* Invariants: every result is well-typed, valid in all finite standard models, not false.  *)
EXTENDS C01_Rules
CONSTANT MaxLen
VARIABLES steps, done
vars == <<steps, done>>
Results == { steps[i].res : i \in 1..Len(steps) }
Init == steps = <<>> /\ done = FALSE
Derive == /\ ~done /\ Len(steps) < MaxLen
          /\ \E a \in { x \in Attempts(Results) : Keep(x.res) /\ x.res \notin Results } :
               steps' = Append(steps, a)
          /\ UNCHANGED done
StepJ(a) == [rule |-> a.rule, arg |-> a.arg,
             prems |-> [i \in 1..Len(a.prems) |-> [h |-> SetToSeq(a.prems[i].h), c |-> a.prems[i].c]],
             expected |-> [h |-> SetToSeq(a.res.h), c |-> a.res.c]]
Finish == /\ ~done /\ Len(steps) = MaxLen /\ done' = TRUE
          /\ PrintT(<<"DERIV", ToJson([i \in 1..Len(steps) |-> StepJ(steps[i])])>>)
          /\ UNCHANGED steps
Next == Derive \/ Finish
Spec == Init /\ [][Next]_vars
LastOK == steps # <<>> => LET th == steps[Len(steps)].res IN
             SeqWellTyped(th) /\ (Examinable(th, N) => Valid(th, N))
             /\ ~(th.h = {} /\ th.c \in { Forall(vA, vA), Forall(sP, sP) })
=============================================================================
