SPECIFICATION Spec
CONSTANTS Depth = 2
 MaxSize = 8
 CoreSize = 5
INVARIANT TermOK
INVARIANT NonVacuous
CHECK_DEADLOCK FALSE
