SPECIFICATION Spec
CONSTANTS Depth = 2
 MaxSize = 7
 NestSize = 5
 CoreSize = 4
INVARIANT TermOK
INVARIANT NonVacuous
CHECK_DEADLOCK FALSE
