SPECIFICATION Spec
CONSTANTS Addr = {1,2,3}
 Structs = {"s1","s2"}
 MaxSteps = 6
 CopyReowns = TRUE
INVARIANT EqCorrect
INVARIANT TokenOwn
CHECK_DEADLOCK FALSE
