------------------------------ MODULE X01_Context ------------------------------
(* S-specification of X01 (d): the two globals theory.thy and context.ctxt of logic/context.py under fresh_context blocks,    *)
(* set_context, load_theory / load_theory_cache (logic/basic.py), extension of the global theory and mutation of the current   *)
(* Context object, modelled at the level of the MECHANISM: objects with identities (thys / ctxs are the heaps), the generator   *)
(* frame of every open fresh_context block holding the saved previous context, load_theory building a new Theory object.        *)
(* One action per operation.  The clauses (X01_Defs.CtxClauses, the SAME operator the T specification applies to the real        *)
(* globals) are evaluated by Step on what is observed before / after; the record taken at block entry (entry theory identity,    *)
(* entry context content, whether the body itself installed a theory) is the ghost part of a frame, exactly what the driver       *)
(* records.  Mechanism switches (`fixed` = as coded = reference; the others are mutants):                                         *)
(*   ExitMode "entry" | "empty" | "bottom"   fresh_context restores the saved context / installs Context() / the outermost saved   *)
(*   SetCtxMode "replace" | "inplace"        set_context installs a new Context / overwrites the fields of the current one        *)
(*   LoadMode "fresh" | "shared"             load_theory builds a new Theory / hands out one cached Theory object per name        *)
(*   CacheLoadMode "restore" | "leak"        load_theory_cache restores theory.thy / leaves its scratch theory installed          *)
EXTENDS X01_Defs, Json
CONSTANTS MaxOps, MaxDepth, ThNames, VSets, Record, EmitAll, ExitMode, SetCtxMode, LoadMode, CacheLoadMode
VARIABLES thy, thys, ctx, ctxs, frames, shared, ops, hist, done, fails, dv
vars == <<thy, thys, ctx, ctxs, frames, shared, ops, hist, done, fails, dv>>
Content(v) == [vs |-> v, mut |-> FALSE]
Fresh(n) == [name |-> n, ext |-> 0]
Op(k, n, v, h) == [k |-> k, name |-> n, vs |-> v, how |-> h]
Held(S) == { <<i, S[i]>> : i \in 1..Len(S) }
Glob(t, T, c, C) == [thy |-> t, ctx |-> c, cc |-> C[c], thyd |-> T[t]]
Init == /\ thy = 1 /\ thys = <<Fresh("empty")>> /\ ctx = 1 /\ ctxs = <<Content("v0")>> /\ frames = <<>>
        /\ shared = [n \in ThNames |-> 0]
        /\ ops = 0 /\ hist = <<>> /\ done = FALSE /\ fails = {} /\ dv = FALSE
\* one step to the globals t / c and heaps T / C;  entry, dirty: the record of the block left by an exit
Step(op, t, T, c, C, F, S, entry, dirty, want, canon, hascanon) ==
  LET B == Glob(thy, thys, ctx, ctxs)
      A == Glob(t, T, c, C)
  IN /\ thy' = t /\ thys' = T /\ ctx' = c /\ ctxs' = C /\ frames' = F /\ shared' = S /\ ops' = ops + 1 /\ UNCHANGED done
     /\ fails' = CtxClauses(op, B, A, Held(thys), Held(T), Held(ctxs), Held(C), entry, dirty, "ok", want, canon, hascanon)
     /\ dv' = CtxDiverges(op, B, A, Held(ctxs), Held(C), entry, dirty, "ok", want)
     /\ hist' = IF Record THEN Append(hist, op) ELSE hist
NoEntry == [thy |-> 0, ctx |-> 0, cc |-> Content("v0")]
Dirty(F) == [i \in 1..Len(F) |-> [F[i] EXCEPT !.dirty = TRUE]]
Enter(v) == /\ Len(frames) < MaxDepth
            /\ Step(Op("enter", "", v, ""), thy, thys, Len(ctxs) + 1, Append(ctxs, Content(v)),
                    Append(frames, [prev |-> ctx, ethy |-> thy, ectx |-> ctx, ecc |-> ctxs[ctx], dirty |-> FALSE]), shared,
                    NoEntry, FALSE, Content(v), Fresh(""), FALSE)
Exit(how) ==
  /\ Len(frames) > 0
  /\ LET f == frames[Len(frames)]
         rest == SubSeq(frames, 1, Len(frames) - 1)
         C == IF ExitMode = "empty" THEN Append(ctxs, Content("v0")) ELSE ctxs
         c == CASE ExitMode = "entry" -> f.prev [] ExitMode = "bottom" -> frames[1].prev [] OTHER -> Len(C)
     IN Step(Op("exit", "", "", how), thy, thys, c, C, rest, shared, [thy |-> f.ethy, ctx |-> f.ectx, cc |-> f.ecc], f.dirty, Content("v0"), Fresh(""), FALSE)
\* load_theory(name): the new global theory
Loaded(n) == IF LoadMode = "shared" /\ shared[n] # 0 THEN [t |-> shared[n], T |-> thys, S |-> shared]
             ELSE [t |-> Len(thys) + 1, T |-> Append(thys, Fresh(n)), S |-> IF LoadMode = "shared" THEN [shared EXCEPT ![n] = Len(thys) + 1] ELSE shared]
Load(n) == LET r == Loaded(n) IN
           Step(Op("load", n, "", ""), r.t, r.T, ctx, ctxs, Dirty(frames), r.S, NoEntry, FALSE, Content("v0"), Fresh(n), TRUE)
SetCtx(n, v) ==
  LET r == IF n = "" THEN [t |-> thy, T |-> thys, S |-> shared] ELSE Loaded(n)
      C == IF SetCtxMode = "inplace" THEN [ctxs EXCEPT ![ctx] = Content(v)] ELSE Append(ctxs, Content(v))
      c == IF SetCtxMode = "inplace" THEN ctx ELSE Len(C)
  IN Step(Op("setctx", n, v, ""), r.t, r.T, c, C, IF n = "" THEN frames ELSE Dirty(frames), r.S, NoEntry, FALSE, Content(v), Fresh(n), n # "")
ExtGlobal == Step(Op("extglobal", "", "", ""), thy, [thys EXCEPT ![thy].ext = @ + 1], ctx, ctxs, frames, shared, NoEntry, FALSE, Content("v0"), Fresh(""), FALSE)
Mutate == Step(Op("mutate", "", "", ""), thy, thys, ctx, [ctxs EXCEPT ![ctx].mut = TRUE], frames, shared, NoEntry, FALSE, Content("v0"), Fresh(""), FALSE)
CacheLoad(n) ==
  LET leak == CacheLoadMode = "leak" IN
  Step(Op("cacheload", n, "", ""), IF leak THEN Len(thys) + 1 ELSE thy, IF leak THEN Append(thys, Fresh("empty")) ELSE thys, ctx, ctxs, frames, shared,
       NoEntry, FALSE, Content("v0"), Fresh(""), FALSE)
Finish == /\ Record /\ ~done /\ (IF EmitAll THEN ops >= 1 ELSE ops = MaxOps) /\ done' = TRUE
          /\ PrintT(<<"X01C", ToJson([fam |-> "ctx", steps |-> hist, log |-> IF EmitAll THEN "last" ELSE "all"])>>)
          /\ UNCHANGED <<thy, thys, ctx, ctxs, frames, shared, ops, hist, fails, dv>>
Act == /\ ~done /\ ops < MaxOps
       /\ \/ \E v \in VSets : Enter(v)
          \/ \E h \in {"normal", "exc"} : Exit(h)
          \/ \E n \in ThNames : Load(n)
          \/ \E n \in ThNames \cup {""}, v \in VSets : SetCtx(n, v)
          \/ ExtGlobal
          \/ Mutate
          \/ \E n \in ThNames : CacheLoad(n)
Next == Act \/ Finish
Spec == Init /\ [][Next]_vars
\* ---- the statement (d) ----
CtxtRestored == "CtxtRestored" \notin fails
ThyRestored == "ThyRestored" \notin fails
SetContextReplaces == "SetContextReplaces" \notin fails
PrevContextUntouched == "PrevContextUntouched" \notin fails
CachedTheoryUntouched == "CachedTheoryUntouched" \notin fails
\* dv: the step differs from the reference without failing a clause (e.g. the body of a block loaded a theory, which stays installed on exit)
\* the frames really are a stack: the saved contexts are the entry contexts, innermost last
FramesAreStack == \A i \in 1..Len(frames) : frames[i].prev = frames[i].ectx
=============================================================================
