------------------------------- MODULE X06_Sem -------------------------------
(* Meaning of parameterised guarded-command systems (paraverifier/) on concrete states.                                     *)
(*                                                                                                                          *)
(* A system is given by HOL terms in the encoding of HolTerms (= harness/codec.py):                                         *)
(*    sig  = [vars : << <<name, type>> ... >> (position = index used by gcl.convert_term), enum : << names >>, N, vals, sup]*)
(*    rule = [param : name, guard : term, asg : << <<lhs, rhs>> ... >>]      lhs:  x | a k | a   (scalar, cell, whole array) *)
(*    inv  = [vars : << names >>, prop : term]          an invariant speaks about PAIRWISE DISTINCT parameter values         *)
(* A concrete state maps every variable name to a value: scalars to integers (bool: 0/1), arrays to tuples over 1..N.        *)
(*    EvalN / EvalB    the direct interpreter of terms over protocol variables (numerals, enumeration constants, = ~ & | -->,*)
(*                     if-then-else, quantification over the process indices 1..N)                                           *)
(*    Exec             simultaneous assignment of a rule instance                                                            *)
(*    EvalS / LookupState   meaning of the GCL encoding  s (Ident v), s (Para (Ident v) i), NatV, BoolV, fun_upd             *)
(*    RefGoal          the reference subgoal calculus (what get_subgoal is documented to return)                             *)
(*    GoalFacts        one pass over all states and parameter valuations: the facts the clauses are stated on                *)
(* Sup* predicates delimit the fragment on which the evaluators are total; everything else is "not examined".                *)
EXTENDS HolTerms, SequencesExt, FiniteSetsExt

NatT == <<"tc","nat",<<>>>>
ArrT(T) == FunT(NatT, T)
CellT == <<"tc","varType",<<>>>>
ScalT == <<"tc","scalarValue",<<>>>>
StateT == FunT(CellT, ScalT)

IsVar(t) == t[1] \in {"var","svar"}
IsC(t, n) == t[1] = "const" /\ t[2] = n
IsApp1(t, n) == t[1] = "comb" /\ IsC(t[2], n)                                              \* n a      : a = t[3]
IsApp2(t, n) == t[1] = "comb" /\ t[2][1] = "comb" /\ IsC(t[2][2], n)                       \* n a b    : a = t[2][3], b = t[3]
IsApp3(t, n) == t[1] = "comb" /\ t[2][1] = "comb" /\ t[2][2][1] = "comb" /\ IsC(t[2][2][2], n)  \* n a b c : a = t[2][2][3], b = t[2][3], c = t[3]
EqT(t) == t[2][2][3][3][1]                                                                 \* type of the sides of an equation
Rng(s) == { s[i] : i \in 1..Len(s) }

\* ------------------------------------------------------------------------------------------------ numerals
RECURSIVE IsBits(_,_), BitsVal(_)
IsBits(t, d) == \/ IsC(t, "one")
                \/ d > 0 /\ t[1] = "comb" /\ t[2][1] = "const" /\ t[2][2] \in {"bit0","bit1"} /\ IsBits(t[3], d - 1)
BitsVal(t) == IF t[1] = "const" THEN 1 ELSE 2 * BitsVal(t[3]) + (IF t[2][2] = "bit1" THEN 1 ELSE 0)
IsRaw(t) == IsC(t, "zero") \/ IsBits(t, 16)
IsNum(t) == IsRaw(t) \/ (IsApp1(t, "of_nat") /\ IsBits(t[3], 16))
NumVal(t) == IF IsC(t, "zero") THEN 0 ELSE IF IsApp1(t, "of_nat") THEN BitsVal(t[3]) ELSE BitsVal(t)
RECURSIVE Bits(_)
Bits(k) == IF k = 1 THEN <<"const","one",NatT>>
           ELSE <<"comb", <<"const", IF k % 2 = 0 THEN "bit0" ELSE "bit1", FunT(NatT, NatT)>>, Bits(k \div 2)>>
Num(k) == IF k = 0 THEN <<"const","zero",NatT>> ELSE IF k = 1 THEN <<"const","one",NatT>>
          ELSE <<"comb", <<"const","of_nat",FunT(NatT, NatT)>>, Bits(k)>>

\* ------------------------------------------------------------------------------------------------ signatures
VarNames(sig) == { sig.vars[i][1] : i \in 1..Len(sig.vars) }
VarT(sig, nm) == sig.vars[CHOOSE i \in 1..Len(sig.vars) : sig.vars[i][1] = nm][2]
IsEnum(sig, t) == t[1] = "const" /\ t[3] = NatT /\ \E i \in 1..Len(sig.enum) : sig.enum[i] = t[2]
EnumIdx(sig, nm) == (CHOOSE i \in 1..Len(sig.enum) : sig.enum[i] = nm) - 1
EIdx(enum) == [nm \in Rng(enum) |-> (CHOOSE i \in 1..Len(enum) : enum[i] = nm) - 1]
IsSysVar(sig, t, T) == IsVar(t) /\ t[3] = T /\ t[2] \in VarNames(sig) /\ VarT(sig, t[2]) = T
IsParam(t, P) == IsVar(t) /\ t[3] = NatT /\ t[2] \in P
VarTypesOK(sig) == /\ \A i \in 1..Len(sig.vars) : sig.vars[i][2] \in {NatT, BoolT, ArrT(NatT), ArrT(BoolT)}
                   /\ \A i, j \in 1..Len(sig.vars) : i # j => sig.vars[i][1] # sig.vars[j][1]
                   /\ \A i, j \in 1..Len(sig.enum) : i # j => sig.enum[i] # sig.enum[j]

\* ------------------------------------------------------------------------------------------------ the fragment
RECURSIVE SupN(_,_,_), SupB(_,_,_), SupS(_,_,_), SupState(_,_,_)
SupIdx(t, sig, P) == IsParam(t, P) \/ (IsNum(t) /\ NumVal(t) \in 1..sig.N)
SupN(t, sig, P) ==
  \/ IsNum(t)
  \/ IsEnum(sig, t)
  \/ IsParam(t, P)
  \/ IsSysVar(sig, t, NatT)
  \/ t[1] = "comb" /\ IsSysVar(sig, t[2], ArrT(NatT)) /\ SupIdx(t[3], sig, P)
  \/ IsApp3(t, "IF") /\ SupB(t[2][2][3], sig, P) /\ SupN(t[2][3], sig, P) /\ SupN(t[3], sig, P)
SupCell(t, sig, P) ==
  \/ IsApp1(t, "Ident") /\ IsRaw(t[3])
  \/ IsApp2(t, "Para") /\ IsApp1(t[2][3], "Ident") /\ IsRaw(t[2][3][3]) /\ (IsParam(t[3], P) \/ IsNum(t[3]))
SupB(t, sig, P) ==
  \/ IsC(t, "true") \/ IsC(t, "false")
  \/ IsApp1(t, "neg") /\ SupB(t[3], sig, P)
  \/ (IsApp2(t, "conj") \/ IsApp2(t, "disj") \/ IsApp2(t, "implies")) /\ SupB(t[2][3], sig, P) /\ SupB(t[3], sig, P)
  \/ IsApp2(t, "equals") /\ \/ EqT(t) = NatT /\ SupN(t[2][3], sig, P) /\ SupN(t[3], sig, P)
                            \/ EqT(t) = BoolT /\ SupB(t[2][3], sig, P) /\ SupB(t[3], sig, P)
                            \/ EqT(t) = ScalT /\ SupS(t[2][3], sig, P) /\ SupS(t[3], sig, P)
  \/ IsSysVar(sig, t, BoolT)
  \/ t[1] = "comb" /\ IsSysVar(sig, t[2], ArrT(BoolT)) /\ SupIdx(t[3], sig, P)
  \/ IsApp3(t, "IF") /\ SupB(t[2][2][3], sig, P) /\ SupB(t[2][3], sig, P) /\ SupB(t[3], sig, P)
  \/ (IsApp1(t, "all") \/ IsApp1(t, "exists")) /\ t[3][1] = "abs" /\ t[3][2] = NatT
     /\ \A d \in 1..sig.N : SupB(SubstBound(t[3], Num(d)), sig, P)
SupState(t, sig, P) ==
  \/ IsVar(t) /\ t[3] = StateT
  \/ IsApp3(t, "fun_upd") /\ SupState(t[2][2][3], sig, P) /\ SupCell(t[2][3], sig, P) /\ SupS(t[3], sig, P)
SupS(t, sig, P) ==
  \/ IsApp1(t, "NatV") /\ SupN(t[3], sig, P)
  \/ IsApp1(t, "BoolV") /\ SupB(t[3], sig, P)
  \/ t[1] = "comb" /\ SupState(t[2], sig, P) /\ SupCell(t[3], sig, P)

\* ------------------------------------------------------------------------------------------------ the interpreter
\* e = [sig, st, pv]: pv maps parameter names to process indices; DOMAIN e.pv = the P the term was found supported with
RECURSIVE EvalN(_,_), EvalB(_,_), EvalS(_,_), LookupState(_,_,_)
\* (the tests follow the shape analysis of SupN / SupB: a term is only evaluated after it was found supported)
EvalN(t, e) ==
  IF t[1] = "comb" THEN
     LET f == t[2] IN
     IF f[1] = "const" THEN (IF f[2] = "of_nat" THEN BitsVal(t[3]) ELSE BitsVal(t))
     ELSE IF f[1] = "comb" THEN (IF EvalB(f[2][3], e) THEN EvalN(f[3], e) ELSE EvalN(t[3], e))
     ELSE e.st[f[2]][EvalN(t[3], e)]
  ELSE IF t[1] = "const" THEN (IF t[2] = "zero" THEN 0 ELSE IF t[2] = "one" THEN 1 ELSE e.sig.eidx[t[2]])
  ELSE IF t[2] \in DOMAIN e.pv THEN e.pv[t[2]] ELSE e.st[t[2]]
\* cells of the encoded state: <<"I", v, 0>> = Ident v,  <<"P", v, i>> = Para (Ident v) i
CellOf(t, e) == IF IsApp1(t, "Ident") THEN <<"I", NumVal(t[3]), 0>> ELSE <<"P", NumVal(t[2][3][3]), EvalN(t[3], e)>>
\* value of a cell in the concrete state: <<"N", n>>, <<"B", 0/1>>; cells that belong to no variable hold junk of their own
ReadCell(c, e) ==
  LET junk == <<"J", 1000 + 100 * c[2] + c[3]>> IN
  IF c[2] + 1 \notin 1..Len(e.sig.vars) THEN junk ELSE
  LET nm == e.sig.vars[c[2] + 1][1]  T == e.sig.vars[c[2] + 1][2] IN
  IF c[1] = "I" THEN (IF T = NatT THEN <<"N", e.st[nm]>> ELSE IF T = BoolT THEN <<"B", e.st[nm]>> ELSE junk)
  ELSE IF c[3] \notin 1..e.sig.N THEN junk
  ELSE IF T = ArrT(NatT) THEN <<"N", e.st[nm][c[3]]>> ELSE IF T = ArrT(BoolT) THEN <<"B", e.st[nm][c[3]]>> ELSE junk
LookupState(t, c, e) ==
  IF IsVar(t) THEN ReadCell(c, e)
  ELSE IF CellOf(t[2][3], e) = c THEN EvalS(t[3], e) ELSE LookupState(t[2][2][3], c, e)
EvalS(t, e) ==
  IF IsApp1(t, "NatV") THEN <<"N", EvalN(t[3], e)>>
  ELSE IF IsApp1(t, "BoolV") THEN <<"B", IF EvalB(t[3], e) THEN 1 ELSE 0>>
  ELSE LookupState(t[2], CellOf(t[3], e), e)
EvalB(t, e) ==
  IF t[1] = "comb" THEN
     LET f == t[2] IN
     IF f[1] = "comb" THEN
        IF f[2][1] = "comb" THEN (IF EvalB(f[2][3], e) THEN EvalB(f[3], e) ELSE EvalB(t[3], e)) ELSE      \* if-then-else
        LET op == f[2][2] IN
        IF op = "equals" THEN (LET T == f[2][3][3][1][2] IN
                               IF T = "nat" THEN EvalN(f[3], e) = EvalN(t[3], e)
                               ELSE IF T = "bool" THEN EvalB(f[3], e) = EvalB(t[3], e)
                               ELSE EvalS(f[3], e) = EvalS(t[3], e))
        ELSE IF op = "conj" THEN EvalB(f[3], e) /\ EvalB(t[3], e)
        ELSE IF op = "disj" THEN EvalB(f[3], e) \/ EvalB(t[3], e)
        ELSE EvalB(f[3], e) => EvalB(t[3], e)
     ELSE IF f[1] = "const" THEN
        (IF f[2] = "neg" THEN ~EvalB(t[3], e)
         ELSE IF f[2] = "all" THEN \A d \in 1..e.sig.N : EvalB(SubstBound(t[3], Num(d)), e)
         ELSE \E d \in 1..e.sig.N : EvalB(SubstBound(t[3], Num(d)), e))
     ELSE e.st[f[2]][EvalN(t[3], e)] = 1
  ELSE IF t[1] = "const" THEN t[2] = "true"
  ELSE e.st[t[2]] = 1
Env(sig, st, pv) == [sig |-> sig, st |-> st, pv |-> pv]

\* ------------------------------------------------------------------------------------------------ rules
Target(a) == IF IsVar(a[1]) THEN a[1][2] ELSE a[1][2][2]
\* "s" scalar := e, "p" a k := e (k the rule parameter), "w" a := b (whole array), "?" anything else
AKind(sig, a, p) ==
  LET lh == a[1]  rh == a[2] IN
  IF IsSysVar(sig, lh, NatT) /\ SupN(rh, sig, {p}) THEN "s"
  ELSE IF IsSysVar(sig, lh, BoolT) /\ SupB(rh, sig, {p}) THEN "s"
  ELSE IF lh[1] = "comb" /\ IsParam(lh[3], {p}) /\ IsSysVar(sig, lh[2], ArrT(NatT)) /\ SupN(rh, sig, {p}) THEN "p"
  ELSE IF lh[1] = "comb" /\ IsParam(lh[3], {p}) /\ IsSysVar(sig, lh[2], ArrT(BoolT)) /\ SupB(rh, sig, {p}) THEN "p"
  ELSE IF IsVar(lh) /\ IsVar(rh) /\ lh[3] = rh[3] /\ (IsSysVar(sig, lh, ArrT(NatT)) \/ IsSysVar(sig, lh, ArrT(BoolT)))
          /\ IsSysVar(sig, rh, lh[3]) THEN "w"
  ELSE "?"
SupRule(r, sig) == /\ r.param # "" /\ r.param \notin VarNames(sig)
                   /\ SupB(r.guard, sig, {r.param})
                   /\ \A i \in 1..Len(r.asg) : AKind(sig, r.asg[i], r.param) # "?"
                   /\ \A i, j \in 1..Len(r.asg) : i # j => Target(r.asg[i]) # Target(r.asg[j])
RhsVal(T, rh, e) == IF T = NatT THEN EvalN(rh, e) ELSE IF EvalB(rh, e) THEN 1 ELSE 0
\* simultaneous assignment: every right-hand side is read in the state before
Exec(r, e) ==
  LET new(nm) == LET a == r.asg[CHOOSE j \in 1..Len(r.asg) : Target(r.asg[j]) = nm]
                     T == VarT(e.sig, nm) IN
                 IF T \in {NatT, BoolT} THEN RhsVal(T, a[2], e)
                 ELSE IF IsVar(a[1]) THEN e.st[a[2][2]]
                 ELSE [e.st[nm] EXCEPT ![e.pv[r.param]] = RhsVal(T[3][2], a[2], e)]
  IN [nm \in DOMAIN e.st |-> IF \E j \in 1..Len(r.asg) : Target(r.asg[j]) = nm THEN new(nm) ELSE e.st[nm]]
Enabled(r, e) == EvalB(r.guard, e)

\* ------------------------------------------------------------------------------------------------ invariants
Inj(f, S) == \A x, y \in S : x # y => f[x] # f[y]
SupInv(iv, sig) == /\ \A i, j \in 1..Len(iv.vars) : i # j => iv.vars[i] # iv.vars[j]
                   /\ Rng(iv.vars) \cap VarNames(sig) = {}
                   /\ SupB(iv.prop, sig, Rng(iv.vars))
InvAt(iv, sig, st) == \A v \in [Rng(iv.vars) -> 1..sig.N] : Inj(v, Rng(iv.vars)) => EvalB(iv.prop, Env(sig, st, v))
AllInvAt(invs, sig, st) == \A i \in 1..Len(invs) : InvAt(invs[i], sig, st)

\* ------------------------------------------------------------------------------------------------ states of a scope
ValsOf(sig, T) == IF T = NatT THEN sig.vals ELSE IF T = BoolT THEN {0, 1}
                  ELSE IF T = ArrT(NatT) THEN [1..sig.N -> sig.vals] ELSE [1..sig.N -> {0, 1}]
DefaultOf(sig, T) == IF T \in {NatT, BoolT} THEN 0 ELSE [i \in 1..sig.N |-> 0]
RECURSIVE StatesFrom(_,_), CountFrom(_,_), PowSat(_,_)
StatesFrom(sig, i) ==
  IF i > Len(sig.vars) THEN { <<>> } ELSE
  LET nm == sig.vars[i][1]  T == sig.vars[i][2]
      D == IF nm \in sig.sup THEN ValsOf(sig, T) ELSE { DefaultOf(sig, T) } IN
  { (nm :> d) @@ f : d \in D, f \in StatesFrom(sig, i + 1) }
States(sig) == StatesFrom(sig, 1)
Cap == 10000000
MulSat(a, b) == IF a = 0 \/ b = 0 THEN 0 ELSE IF a > Cap \div b THEN Cap ELSE a * b
PowSat(b, k) == IF k = 0 THEN 1 ELSE MulSat(b, PowSat(b, k - 1))
CountFrom(sig, i) ==
  IF i > Len(sig.vars) THEN 1 ELSE
  LET nm == sig.vars[i][1]  T == sig.vars[i][2]
      c == IF nm \notin sig.sup THEN 1 ELSE IF T = NatT THEN Cardinality(sig.vals) ELSE IF T = BoolT THEN 2
           ELSE IF T = ArrT(NatT) THEN PowSat(Cardinality(sig.vals), sig.N) ELSE PowSat(2, sig.N) IN
  MulSat(c, CountFrom(sig, i + 1))
StateCount(sig) == CountFrom(sig, 1)

\* names and constants occurring in terms (to choose the scope of an event)
RECURSIVE NamesIn(_), ConstsIn(_,_), ParamAsValue(_,_)
NamesIn(t) == IF IsVar(t) THEN {t[2]} ELSE IF t[1] = "comb" THEN NamesIn(t[2]) \cup NamesIn(t[3])
              ELSE IF t[1] = "abs" THEN NamesIn(t[3]) ELSE {}
ConstsIn(t, sig) == IF IsNum(t) THEN {NumVal(t)} ELSE IF t[1] = "const" THEN (IF IsEnum(sig, t) THEN {EnumIdx(sig, t[2])} ELSE {})
                    ELSE IF t[1] = "comb" THEN ConstsIn(t[2], sig) \cup ConstsIn(t[3], sig)
                    ELSE IF t[1] = "abs" THEN ConstsIn(t[3], sig) ELSE {}
\* a parameter used as a VALUE (not as an index): then the values of the cells must include the process indices
ParamAsValue(t, P) == IF IsParam(t, P) THEN TRUE
                      ELSE IF t[1] = "comb" THEN (IF IsVar(t[2]) THEN (~IsParam(t[3], P) /\ ParamAsValue(t[3], P))
                                                  ELSE ParamAsValue(t[2], P) \/ ParamAsValue(t[3], P))
                      ELSE IF t[1] = "abs" THEN ParamAsValue(t[3], P) ELSE FALSE
Fresh(S) == CHOOSE x \in 0..(Cardinality(S)) : x \notin S
\* scope of a set of terms: the variables they mention, the constants they mention + one further value
ScopeOf(base, terms, P) ==
  LET names == UNION { NamesIn(t) : t \in terms }
      cs == UNION { ConstsIn(t, base) : t \in terms }
      pv == IF \E t \in terms : ParamAsValue(t, P) THEN 1..base.N ELSE {} IN
  [vars |-> base.vars, enum |-> base.enum, eidx |-> EIdx(base.enum), N |-> base.N, sup |-> names \cap VarNames(base),
   vals |-> cs \cup pv \cup {Fresh(cs \cup pv)}]

\* ------------------------------------------------------------------------------------------------ the subgoal calculus
\* hint = [k |-> "GUARD" | "PRE" | "INV", h |-> index of the invariant used, inst |-> names its parameters are replaced by]
\* case c < n: the rule parameter is the c-th invariant parameter (the others differ from it); c = n: it differs from all
RECURSIVE Rename(_,_,_), AfterT(_,_,_,_,_)
Pos(s, x) == CHOOSE i \in 1..Len(s) : s[i] = x
Rename(t, from, to) == IF IsVar(t) THEN (IF t[3] = NatT /\ t[2] \in Rng(from) THEN <<t[1], to[Pos(from, t[2])], NatT>> ELSE t)
                       ELSE IF t[1] = "comb" THEN <<"comb", Rename(t[2], from, to), Rename(t[3], from, to)>>
                       ELSE IF t[1] = "abs" THEN <<"abs", t[2], Rename(t[3], from, to)>> ELSE t
AsgOf(r, nm, kind, sig) == { i \in 1..Len(r.asg) : Target(r.asg[i]) = nm /\ AKind(sig, r.asg[i], r.param) = kind }
\* the invariant body read in the state after the rule instance: substitution of the assigned cells
AfterT(t, r, ivars, c, sig) ==
  IF t[1] = "comb" /\ IsVar(t[2]) /\ IsVar(t[3]) /\ t[3][2] \in Rng(ivars)
     /\ (IsSysVar(sig, t[2], ArrT(NatT)) \/ IsSysVar(sig, t[2], ArrT(BoolT))) THEN
       (IF c < Len(ivars) /\ ivars[c + 1] = t[3][2] /\ AsgOf(r, t[2][2], "p", sig) # {}
          THEN r.asg[CHOOSE i \in AsgOf(r, t[2][2], "p", sig) : TRUE][2]
        ELSE IF AsgOf(r, t[2][2], "w", sig) # {}
          THEN <<"comb", r.asg[CHOOSE i \in AsgOf(r, t[2][2], "w", sig) : TRUE][2], t[3]>>
        ELSE t)
  ELSE IF IsVar(t) THEN (IF (IsSysVar(sig, t, NatT) \/ IsSysVar(sig, t, BoolT)) /\ AsgOf(r, t[2], "s", sig) # {}
                           THEN r.asg[CHOOSE i \in AsgOf(r, t[2], "s", sig) : TRUE][2] ELSE t)
  ELSE IF t[1] = "comb" THEN <<"comb", AfterT(t[2], r, ivars, c, sig), AfterT(t[3], r, ivars, c, sig)>>
  ELSE t
\* hv = the invariant an INV hint uses (any invariant for the other hints)
HintOK(hint, hv) == hint.k \in {"GUARD", "PRE"} \/ (hint.k = "INV" /\ Len(hint.inst) = Len(hv.vars))
RefGoal(r, iv, c, hint, hv, sig) ==
  LET after == AfterT(iv.prop, r, iv.vars, c, sig) IN
  IF hint.k = "GUARD" THEN Imp(r.guard, after)
  ELSE IF hint.k = "PRE" THEN Imp(iv.prop, after)
  ELSE Imp(Rename(hv.prop, hv.vars, hint.inst), Imp(r.guard, after))
\* an instantiation that names pairwise different processes in the case at hand (only then is it an instance of the invariant)
InstDistinct(hint, r, iv, c) ==
  /\ \A i, j \in 1..Len(hint.inst) : i # j => hint.inst[i] # hint.inst[j]
  /\ Rng(hint.inst) \subseteq (Rng(iv.vars) \cup {r.param})
  /\ c < Len(iv.vars) => ~({r.param, iv.vars[c + 1]} \subseteq Rng(hint.inst))

\* the case a valuation belongs to
CaseOK(v, r, iv, c) == /\ Inj(v, Rng(iv.vars))
                       /\ IF c < Len(iv.vars) THEN v[r.param] = v[iv.vars[c + 1]] ELSE \A p \in Rng(iv.vars) : v[r.param] # v[p]
\* the hypothesis a hint is documented to provide, at one state and valuation (gd = the guard's value there)
HypDoc(r, iv, hint, h, e, gd) ==
  IF hint.k = "GUARD" THEN gd
  ELSE IF hint.k = "PRE" THEN EvalB(iv.prop, e)
  ELSE /\ EvalB(h.prop, [e EXCEPT !.pv = [p \in Rng(h.vars) |-> e.pv[hint.inst[Pos(h.vars, p)]]] @@ e.pv])
       /\ gd
\* what the state may be assumed to satisfy when the hint is used in an inductive argument: the guard, and for PRE the same
\* instance of the invariant, for INV every instance (pairwise distinct processes) of the invariant used (hall)
HypInd(r, iv, hint, e, gd, hall) ==
  /\ gd
  /\ hint.k = "PRE" => EvalB(iv.prop, e)
  /\ hint.k = "INV" => hall
\* parameters a goal is evaluated under
GoalParams(r, iv, hint, goals, sig) ==
  ({r.param} \cup Rng(iv.vars) \cup Rng(hint.inst) \cup UNION { NamesIn(g) : g \in goals }) \ VarNames(sig)
\* facts about (goal g1, goal g2 with the enumeration replaced by numbers; same = they are known to mean the same) over a scope:
\*   <<g1 true, g2 true, valuation in the case, documented hypothesis, inductive hypothesis, invariant after the step>>
GoalFacts(g1, g2, same, r, iv, c, hint, hv, sig) ==
  LET VS == [GoalParams(r, iv, hint, {g1, g2}, sig) -> 1..sig.N] IN
  UNION { LET hall == IF hint.k = "INV" THEN InvAt(hv, sig, st) ELSE TRUE IN
          { LET e == Env(sig, st, v)
                inc == CaseOK(v, r, iv, c)
                gd == EvalB(r.guard, e)
                v1 == EvalB(g1, e)
                aft == IF inc THEN EvalB(iv.prop, Env(sig, Exec(r, e), v)) ELSE TRUE
            IN << v1, IF same THEN v1 ELSE EvalB(g2, e), inc, HypDoc(r, iv, hint, hv, e, gd), HypInd(r, iv, hint, e, gd, hall), aft >>
            : v \in VS }
          : st \in States(sig) }
\* the enumeration constants of a term replaced by their numbers
RECURSIVE Numbered(_,_)
Numbered(t, sig) == IF t[1] = "const" THEN (IF IsEnum(sig, t) THEN Num(EnumIdx(sig, t[2])) ELSE t)
                    ELSE IF t[1] = "comb" THEN <<"comb", Numbered(t[2], sig), Numbered(t[3], sig)>>
                    ELSE IF t[1] = "abs" THEN <<"abs", t[2], Numbered(t[3], sig)>> ELSE t
Valid1(F) == \A f \in F : f[1]
Valid2(F) == \A f \in F : f[2]
MeaningOK(F) == \A f \in F : f[3] => (f[1] = (f[4] => f[6]))
SoundOK(F) == Valid1(F) => \A f \in F : (f[3] /\ f[5]) => f[6]
SameTwo(F) == \A f \in F : f[1] = f[2]
=============================================================================
