SPECIFICATION Spec
CONSTANTS Atoms = {"a", "b", "c"}
 FullConn = 2
 RepFull = TRUE
 MaxConn = 3
INVARIANT RefTheoremValid
INVARIANT RefEquisat
INVARIANT RefDefinitional
POSTCONDITION Emit
CHECK_DEADLOCK FALSE
