SPECIFICATION Spec
CONSTANTS Atoms = {"a", "b", "c"}
 FullConn = 2
 RepFull = TRUE
 MaxConn = 3
 ClashAtoms = {"a", "b"}
 XAtoms = {"x1", "x2", "x3", "x4"}
 ClashConn = 2
 ConstAtoms = {"a", "b"}
 ConstConn = 2
 WithConsts = FALSE
INVARIANT RefTheoremValid
INVARIANT RefEquisat
INVARIANT RefTopIsVariable
INVARIANT RefDefinitional
INVARIANT RefConservative
POSTCONDITION Emit
CHECK_DEADLOCK FALSE
