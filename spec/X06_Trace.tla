------------------------------ MODULE X06_Trace ------------------------------
(* T-specification for X06.  Events come from the real code (harness/drivers/x06.py); every term is in the encoding of       *)
(* harness/codec.py, every system is described by  vars << <<name, type>> >>, enum << names >>, N (processes of the scope).   *)
(*  kind "load"  load_system on a description:  src = the description sent (absent for the files of paraverifier/examples),   *)
(*               sys = what the loaded ParaSystem holds, shown = the guards / assignments / invariants of str(system)         *)
(*               parsed again in the system's context                                                                         *)
(*     LoadFaithful  : variables, enumeration, parameters as described; every guard, assignment and invariant means what the  *)
(*                     description says on every state of the scope                                                           *)
(*     PrintReparse  : a shown guard / assignment / invariant does not parse back to the loaded term                          *)
(*  kind "goal"  get_subgoal / verify_subgoal on (invariant iv, rule r, case, hint [k, inst], invariant hv used by the hint): *)
(*               goal, vgoal (enumeration replaced by numbers), ans                                                           *)
(*     SubgoalMeaning : at some state and parameter valuation of the case the goal is not  hypothesis => invariant after r    *)
(*     SubgoalSound   : the goal holds on the whole scope, yet some state satisfying the guard and the invariants used has a  *)
(*                      successor violating the invariant                                                                     *)
(*     StatesReplaced : goal and vgoal differ in meaning                                                                      *)
(*     AnswerValid    : ans = TRUE although vgoal is false somewhere in the scope                                             *)
(*  kind "enc"   gcl.convert_term / gcl.mk_assign on every rule and invariant, add_invariant (inv_def), add_semantics         *)
(*               (trans_rule<i>)                                                                                              *)
(*     GuardEncoding / AssignEncoding / InvTermEncoding : the encoded term differs from the interpreter on some state         *)
(*     TransEncoding : an introduction rule of `trans` is not  encoded guard --> trans s (encoded update)                     *)
(*     InvEncoding   : the right-hand side of inv_def is not, on some state and valuation of its free variables, the truth    *)
(*                     value of "all invariants hold for pairwise distinct processes"                                         *)
(*  kind "fire"  one step of a behaviour of X06_Para: state pre, rule r, process k, expected state exp (hasexp)               *)
(*     StepAgrees : the encoded guard is false at pre, or the encoded update differs from exp / from Exec on a declared cell  *)
(*     ExecBinding: the specification's own step differs from exp (machinery)                                                 *)
(* Divergence: the code's goal is not the reference calculus' term; ans = FALSE on a goal valid in the scope; unsupported      *)
(* shapes; operations that raised.                                                                                            *)
EXTENDS X06_Sem, TraceLib

Base(e) == [vars |-> e.vars, enum |-> e.enum, eidx |-> EIdx(e.enum), N |-> e.N]
NoV == [fails |-> {}, nt |-> FALSE, dv |-> FALSE]
NoVd == [fails |-> {}, nt |-> FALSE, dv |-> TRUE]
F(c, name) == IF c THEN {name} ELSE {}
ParamCount(P, N) == PowSat(N, Cardinality(P))
RuleTerms(r) == {r.guard} \cup UNION { { r.asg[i][1], r.asg[i][2] } : i \in 1..Len(r.asg) }
BaseOK(e) == e.N \in 1..3 /\ VarTypesOK(Base(e))

\* ------------------------------------------------------------------------------------------------ goal
GoalVerdict(e) ==
  IF e.outcome # "ok" THEN NoVd ELSE
  IF ~BaseOK(e) THEN NoV ELSE
  LET b0 == Base(e)
      P0 == ({e.r.param} \cup Rng(e.iv.vars) \cup Rng(e.hint.inst) \cup NamesIn(e.goal) \cup NamesIn(e.vgoal)) \ VarNames(b0)
      \* the scope: what the guard, the invariants, the goals and the assignments to variables of the invariant mention
      terms == {e.r.guard, e.iv.prop, e.hv.prop, e.goal, e.vgoal}
               \cup { e.r.asg[i][2] : i \in { j \in 1..Len(e.r.asg) : Target(e.r.asg[j]) \in NamesIn(e.iv.prop) } }
      sig == ScopeOf(b0, terms, P0)
      sup == /\ SupRule(e.r, sig) /\ SupInv(e.iv, sig) /\ SupInv(e.hv, sig) /\ HintOK(e.hint, e.hv)
             /\ e.r.param \notin Rng(e.iv.vars)
             /\ e.case \in 0..Len(e.iv.vars)
             /\ SupB(e.goal, sig, P0) /\ SupB(e.vgoal, sig, P0)
             /\ MulSat(StateCount(sig), ParamCount(P0, sig.N)) <= e.budget
  IN IF ~sup THEN NoV ELSE
  LET Fs == GoalFacts(e.goal, e.vgoal, e.vgoal = Numbered(e.goal, sig), e.r, e.iv, e.case, e.hint, e.hv, sig)
      judgeSound == e.hint.k # "INV" \/ InstDistinct(e.hint, e.r, e.iv, e.case)
      ref == RefGoal(e.r, e.iv, e.case, e.hint, e.hv, sig)
  IN [fails |-> F(~MeaningOK(Fs), "SubgoalMeaning") \cup F(judgeSound /\ ~SoundOK(Fs), "SubgoalSound")
                \cup F(~SameTwo(Fs), "StatesReplaced") \cup F(e.ans /\ ~Valid2(Fs), "AnswerValid"),
      nt |-> TRUE,
      dv |-> ref # e.goal \/ (~e.ans /\ Valid2(Fs))]

\* ------------------------------------------------------------------------------------------------ enc
\* per rule: guard and update encodings against the interpreter
EncRule(e, i) ==
  LET b0 == Base(e)  r == e.rules[i]
      sig == ScopeOf(b0, RuleTerms(r), {r.param})
      ok == SupRule(r, sig) /\ StateCount(sig) <= e.budget
      P == {r.param}
      envs == { Env(sig, st, v) : st \in States(sig), v \in [P -> 1..sig.N] }
      cells == UNION { IF sig.vars[j][2] \in {NatT, BoolT} THEN { <<"I", j - 1, 0>> } ELSE { <<"P", j - 1, p>> : p \in 1..sig.N }
                       : j \in 1..Len(sig.vars) }
      g == e.conv.g[i]  a == e.conv.a[i]
      gsup == ok /\ SupB(g, sig, P)
      asup == ok /\ SupState(a, sig, P)
      gbad == gsup /\ \E en \in envs : EvalB(g, en) # EvalB(r.guard, en)
      abad == asup /\ \E en \in envs : \E c \in cells : LookupState(a, c, en) # ReadCell(c, [en EXCEPT !.st = Exec(r, en)])
      \* trans_rule<i> :  encoded guard --> trans s (encoded update), with the rule's variables schematic
      tr == e.trans[i]
      tshape == IsApp2(tr, "implies") /\ IsApp2(tr[3], "trans") /\ IsVar(tr[3][2][3])
      tsup == ok /\ tshape /\ SupB(tr[2][3], sig, P) /\ SupState(tr[3][3], sig, P)
      tbad == tsup /\ \E en \in envs : \/ EvalB(tr[2][3], en) # EvalB(r.guard, en)
                                        \/ \E c \in cells : LookupState(tr[3][3], c, en) # ReadCell(c, [en EXCEPT !.st = Exec(r, en)])
  IN [fails |-> F(gbad, "GuardEncoding") \cup F(abad, "AssignEncoding") \cup F(tbad, "TransEncoding"),
      nt |-> gsup \/ asup \/ tsup, dv |-> ok /\ (~gsup \/ ~asup \/ ~tsup)]
EncInvTerm(e, i) ==
  LET b0 == Base(e)  iv == e.invs[i]  P == Rng(iv.vars)
      sig == ScopeOf(b0, {iv.prop}, P)
      ok == SupInv(iv, sig) /\ MulSat(StateCount(sig), ParamCount(P, sig.N)) <= e.budget
      t == e.conv.i[i]
      sup == ok /\ SupB(t, sig, P)
      bad == sup /\ \E st \in States(sig), v \in [P -> 1..sig.N] : EvalB(t, Env(sig, st, v)) # EvalB(iv.prop, Env(sig, st, v))
  IN [fails |-> F(bad, "InvTermEncoding"), nt |-> sup, dv |-> ok /\ ~sup]
EncInvDef(e) ==
  LET b0 == Base(e)
      d == e.invdef
      shape == IsApp2(d, "equals") /\ IsApp1(d[2][3], "inv") /\ IsVar(d[2][3][3])
      P == IF shape THEN NamesIn(d[3]) \ (VarNames(b0) \cup {d[2][3][3][2]}) ELSE {}
      sig == ScopeOf(b0, { e.invs[i].prop : i \in 1..Len(e.invs) }, {})
      ok == /\ shape /\ \A i \in 1..Len(e.invs) : SupInv(e.invs[i], sig)
            /\ MulSat(StateCount(sig), ParamCount(P, sig.N)) <= e.budget
      sup == ok /\ SupB(d[3], sig, P)
      bad == sup /\ \E st \in States(sig), v \in [P -> 1..sig.N] : EvalB(d[3], Env(sig, st, v)) # AllInvAt(e.invs, sig, st)
  IN [fails |-> F(bad, "InvEncoding"), nt |-> sup, dv |-> ~sup]
Merge(S) == [fails |-> UNION { s.fails : s \in S }, nt |-> \E s \in S : s.nt, dv |-> \E s \in S : s.dv]
EncVerdict(e) ==
  IF ~BaseOK(e) THEN NoV ELSE
  Merge( { EncRule(e, i) : i \in 1..Len(e.rules) } \cup { EncInvTerm(e, i) : i \in 1..Len(e.invs) } \cup { EncInvDef(e) } )

\* ------------------------------------------------------------------------------------------------ fire
FireVerdict(e) ==
  IF ~BaseOK(e) \/ e.outcome # "ok" THEN NoVd ELSE
  LET b0 == Base(e)  r == e.r
      sig == [vars |-> b0.vars, enum |-> b0.enum, eidx |-> b0.eidx, N |-> b0.N, sup |-> VarNames(b0), vals |-> {0}]
      P == {r.param}
      stOK(s) == /\ DOMAIN s = VarNames(b0)
                 /\ \A j \in 1..Len(b0.vars) : IF b0.vars[j][2] \in {NatT, BoolT} THEN s[b0.vars[j][1]] \in 0..1000
                                               ELSE /\ DOMAIN s[b0.vars[j][1]] = 1..b0.N
                                                    /\ \A p \in 1..b0.N : s[b0.vars[j][1]][p] \in 0..1000
      ok == SupRule(r, sig) /\ e.k \in 1..b0.N /\ stOK(e.pre) /\ (e.hasexp => stOK(e.exp))
      en == Env(sig, e.pre, (r.param :> e.k))
      post == Exec(r, en)
      cells == UNION { IF sig.vars[j][2] \in {NatT, BoolT} THEN { <<"I", j - 1, 0>> } ELSE { <<"P", j - 1, p>> : p \in 1..sig.N }
                       : j \in 1..Len(sig.vars) }
      sup == ok /\ SupB(e.genc, sig, P) /\ SupState(e.aenc, sig, P)
      want == IF e.hasexp THEN e.exp ELSE post
      bad == sup /\ \/ EvalB(e.genc, en) # EvalB(r.guard, en)
                    \/ \E c \in cells : LookupState(e.aenc, c, en) # ReadCell(c, [en EXCEPT !.st = want])
      bind == ok /\ e.hasexp /\ (post # e.exp \/ ~EvalB(r.guard, en))
  IN [fails |-> F(bad, "StepAgrees") \cup F(bind, "ExecBinding"), nt |-> sup, dv |-> ok /\ ~sup]

\* ------------------------------------------------------------------------------------------------ load
SameSeqLen(a, b) == Len(a) = Len(b)
LoadVerdict(e) ==
  IF e.outcome = "unobservable" THEN NoVd ELSE
  IF e.outcome # "ok" THEN [fails |-> F(e.hassrc, "LoadFaithful"), nt |-> FALSE, dv |-> TRUE] ELSE
  IF ~BaseOK(e) THEN NoV ELSE
  LET b0 == Base(e)
      \* ---- shown text parses back to the loaded terms
      sh == e.shown
      shownBad == \/ \E i \in 1..Len(sh.guards) : sh.guards[i].st = "perr" \/ (sh.guards[i].st = "ok" /\ sh.guards[i].t # e.rules[sh.guards[i].at].guard)
                  \/ \E i \in 1..Len(sh.asgs) : sh.asgs[i].st = "perr"
                        \/ (sh.asgs[i].st = "ok" /\ <<sh.asgs[i].l, sh.asgs[i].r>> # e.rules[sh.asgs[i].at].asg[sh.asgs[i].pos])
                  \/ \E i \in 1..Len(sh.invs) : sh.invs[i].st = "perr" \/ (sh.invs[i].st = "ok" /\ sh.invs[i].t # e.invs[sh.invs[i].at].prop)
      shownN == Len(e.shown.guards) + Len(e.shown.asgs) + Len(e.shown.invs)
      \* ---- the loaded system is the described one
      s == e.src
      shapeSame == /\ s.vars = e.vars /\ s.enum = e.enum /\ Len(s.rules) = Len(e.rules) /\ Len(s.invs) = Len(e.invs)
                   /\ \A i \in 1..Len(s.rules) : s.rules[i].param = e.rules[i].param /\ Len(s.rules[i].asg) = Len(e.rules[i].asg)
                   /\ \A i \in 1..Len(s.invs) : s.invs[i].vars = e.invs[i].vars
      identical == shapeSame /\ s.rules = e.rules /\ s.invs = e.invs
      ruleSame(i) == LET a == s.rules[i]  b == e.rules[i]
                         sig == ScopeOf(b0, RuleTerms(a) \cup RuleTerms(b), {a.param})
                     IN /\ SupRule(a, sig) /\ SupRule(b, sig) /\ StateCount(sig) <= e.budget
                        /\ \A st \in States(sig), v \in [{a.param} -> 1..sig.N] :
                              LET en == Env(sig, st, v) IN EvalB(a.guard, en) = EvalB(b.guard, en) /\ Exec(a, en) = Exec(b, en)
      invSame(i) == LET a == s.invs[i]  b == e.invs[i]
                        sig == ScopeOf(b0, {a.prop, b.prop}, Rng(a.vars))
                    IN /\ SupInv(a, sig) /\ SupInv(b, sig) /\ MulSat(StateCount(sig), ParamCount(Rng(a.vars), sig.N)) <= e.budget
                       /\ \A st \in States(sig), v \in [Rng(a.vars) -> 1..sig.N] : EvalB(a.prop, Env(sig, st, v)) = EvalB(b.prop, Env(sig, st, v))
      faithful == identical \/ (shapeSame /\ (\A i \in 1..Len(s.rules) : s.rules[i] = e.rules[i] \/ ruleSame(i))
                                          /\ (\A i \in 1..Len(s.invs) : s.invs[i] = e.invs[i] \/ invSame(i)))
  IN [fails |-> F(shownBad, "PrintReparse") \cup F(e.hassrc /\ ~faithful, "LoadFaithful"),
      nt |-> e.hassrc \/ shownN > 0,
      dv |-> (e.hassrc /\ faithful /\ ~identical) \/ e.shown.skipped > 0]

Verdict(e) == CASE e.kind = "goal" -> GoalVerdict(e) [] e.kind = "enc" -> EncVerdict(e) [] e.kind = "fire" -> FireVerdict(e)
                [] e.kind = "load" -> LoadVerdict(e)
                [] OTHER -> [fails |-> {"UnknownEvent"}, nt |-> FALSE, dv |-> FALSE]
TNext == LET e == Trace[l]  v == Verdict(e) IN TStep(e.tid, v.fails, v.nt, v.dv)
TSpec == TInit /\ [][TNext]_l
=============================================================================
