SPECIFICATION Spec
CONSTANTS Depth = 3
 MaxSize = 9
 Rich = TRUE
INVARIANT WellFormed
INVARIANT GenMatches
INVARIANT NoSVarLeft
INVARIANT PerturbedDiffers
INVARIANT PosFOMatch
INVARIANT SelfMatch
INVARIANT WitnessUnique
INVARIANT BadSeedUnmatchable
INVARIANT WitnessesMatch
INVARIANT UniverseAdequate
CHECK_DEADLOCK FALSE
