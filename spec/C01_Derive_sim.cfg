SPECIFICATION Spec
CONSTANTS MaxRound = 0
 MaxSize = 9
 MaxHyps = 2
 N = 2
 EmitRejected = FALSE
 Focus = FALSE
 MaxLen = 10
INVARIANT LastOK
CHECK_DEADLOCK FALSE
