------------------------------ MODULE C18_Alethe ------------------------------
(* S-specification for C18: "each accepted veriT (Alethe) proof step is a logical consequence of its premises".      *)
(*                                                                                                                   *)
(* Reference rule semantics: for every rule a SCHEMA = the set of its intended instances over small formula pools     *)
(* (R_<rule> in C18_Rules.tla, written from the Alethe rule statements, not from the code).  An instance is         *)
(*     [rule, mut, prems = <<[h,c]..>>, cl = <<literals>>, x = [sizes, coeffs, inst, ctx]]                            *)
(* The machine: a proof state db (set of derived sequents) and a pending candidate step.  Init chooses ANY candidate  *)
(* step: an intended instance or a NEAR MISS of one (a literal dropped / added / negated / swapped, a premise dropped  *)
(* or added, one connective / atom / negation / comparison / numeral changed anywhere in a premise or literal, a      *)
(* Farkas coefficient or instantiation perturbed, hypotheses attached to the premises).  Step admits the candidate     *)
(* into db iff it is an intended instance (the reference accepts exactly the schema).                                 *)
(* Invariants (design level):                                                                                        *)
(*   RefSound      every admitted step is Entailed (finite models / arithmetic grid, C18_Sem) with hyps \subseteq prems *)
(*   DbSound       every sequent in db is a consequence of the premises it was derived from                            *)
(*   ClosedRefutes an admitted step closed into a whole proof (assume premises, step, assume complements, resolution)    *)
(*                 refutes its assumptions                                                                              *)
(*   SchemaTyped   every candidate is a well-typed boolean step                                                        *)
(* The candidates are emitted as vectors and replayed into macro.eval of the real code (C18_AletheTrace judges them). *)
EXTENDS C18_Rules, Json, IOUtils
\* ------------------------------------------------------------------ the machine
\* A candidate step that needs no extra argument can be CLOSED into a whole refutation proof:
\*     assume every premise; the step; assume the complement of every literal of its clause; resolution of all of them
\* The assumed formulas are jointly unsatisfiable exactly when the step is a consequence of its premises.
Wrappable(i) == /\ i.x = NoX /\ Judged(i) /\ i.rule # "verit_subproof" /\ \A j \in 1..Len(i.prems) : i.prems[j].h = <<>>
                /\ i.mut \in WrapMuts
WrapAssumed(i) == [j \in 1..Len(i.prems) |-> i.prems[j].c] \o [k \in 1..Len(i.cl) |-> Neg(i.cl[k])]
AsPrems(fs) == [j \in 1..Len(fs) |-> PS(fs[j])]
VARIABLES cand, db, phase
vars == <<cand, db, phase>>
Init == cand \in Candidates /\ db = {} /\ phase = "pending"
\* the reference accepts exactly the intended instances
Step == /\ phase = "pending" /\ cand.mut = "correct"
        /\ db' = db \cup {[from |-> cand.prems, th |-> ResOfRule(cand)]} /\ phase' = "admitted" /\ UNCHANGED cand
Reject == /\ phase = "pending" /\ cand.mut # "correct"
          /\ phase' = "rejected" /\ UNCHANGED <<cand, db>>
\* close the proof: the empty clause from the admitted step and the complements of its literals
Close == /\ phase = "admitted" /\ Wrappable(cand)
         /\ db' = db \cup {[from |-> AsPrems(WrapAssumed(cand)), th |-> PS(FalseC)]} /\ phase' = "refuted" /\ UNCHANGED cand
Next == Step \/ Reject \/ Close
Spec == Init /\ [][Next]_vars

StepTyped(prems, res) == \A t \in StepTerms(prems, res) : TypeOf(t, <<>>) = BoolT
SchemaTyped == StepTyped(cand.prems, ResOfRule(cand))
RefSound == (cand.mut = "correct" /\ Judged(cand)) =>
               /\ TierStep(cand.rule, cand.prems, ResOfRule(cand)) # "none"
               /\ EntailedStep(cand.rule, cand.prems, ResOfRule(cand))
               /\ HypsSubset(cand.prems, ResOfRule(cand))
DbSound == \A e \in db : (Judged(cand) /\ phase = "admitted") => EntailedStep(cand.rule, e.from, e.th)
\* a closed proof of an intended step really refutes what it assumed (and the oracle could tell)
ClosedRefutes == phase = "refuted" => /\ Tier(AsPrems(WrapAssumed(cand)), PS(FalseC)) # "none"
                                     /\ Entailed(AsPrems(WrapAssumed(cand)), PS(FalseC))
\* explicit near misses are really not consequences (the oracle can tell them apart)
NearMissRefuted == (Judged(cand) /\ cand.mut \in {"nm.outerhyp", "nm.intonly", "nm.strict", "nm.offbyone", "nm.binminus", "nm.zerodiv", "nm.freevar", "nm.shape", "nm.arity", "nm.vars", "nm.noteq", "nm.quant", "nm.arith",
                                              "nm.capture", "nm.zerocoeff", "nm.case9", "nm.onepoint", "nm.let"})
                      => (TierStep(cand.rule, cand.prems, ResOfRule(cand)) # "none" /\ ~EntailedStep(cand.rule, cand.prems, ResOfRule(cand)))
\* whole proofs (spec -> code): commands of smt/veriT/command.py
CmdX(k, id, rule, f, cl, pm, cx) == [k |-> k, id |-> id, rule |-> rule, t |-> f, cl |-> cl, pm |-> pm, ctx |-> cx]
Cmd(k, id, rule, f, cl, pm) == CmdX(k, id, rule, f, cl, pm, <<>>)
Ids(prefix, n) == [j \in 1..n |-> prefix \o ToString(j)]
ProofOf(i) ==
  LET m == Len(i.prems) n == Len(i.cl) IN
  [kind |-> i.rule \o "/" \o i.mut,
   cmds |-> [j \in 1..m |-> Cmd("assume", "a" \o ToString(j), "", i.prems[j].c, <<>>, <<>>)]
            \o << Cmd("step", "t1", i.rule, TrueC, i.cl, Ids("a", m)) >>
            \o [k \in 1..n |-> Cmd("assume", "b" \o ToString(k), "", Neg(i.cl[k]), <<>>, <<>>)]
            \o << Cmd("step", "t2", "verit_th_resolution", TrueC, <<>>, <<"t1">> \o Ids("b", n)) >>]
\* a proof the reference refuses: a step outside a subproof cites a step derived from the LOCAL assumption of that subproof
LeakProof(A) ==
  [kind |-> "leak/local-assumption",
   cmds |-> << Cmd("anchor", "t2", "", TrueC, <<>>, <<>>), Cmd("assume", "t2.a0", "", A, <<>>, <<>>),
               Cmd("step", "t2.t1", "verit_or", TrueC, <<A>>, <<"t2.a0">>), Cmd("step", "t2", "verit_subproof", TrueC, <<Neg(A), A>>, <<>>),
               Cmd("assume", "a1", "", Neg(A), <<>>, <<>>), Cmd("step", "t3", "verit_th_resolution", TrueC, <<>>, <<"t2.t1", "a1">>) >>]
\* NESTED anchors (a quantifier renaming inside a quantifier renaming): the inner subproof uses the equation x1 = y1 of the OUTER
\* context (refl + cong), so the inner bind step must keep that hypothesis; a later step cites the inner bind step (which the
\* reference refuses: it lies in a closed subproof) and resolves with the two assumptions.  The assumed formulas are satisfiable;
\* only together with x1 = y1 are they contradictory.  Binder names matter here: vectors use named abstractions <<"abs", name, T, body>>.
nx == <<"var","x1",TA>>   ny == <<"var","y1",TA>>   nz == <<"var","z1",TA>>   nw == <<"var","w1",TA>>
QN(q, name, body) == App(IF q = "all" THEN AllC(TA) ELSE ExC(TA), <<"abs", name, TA, body>>)
NestedProof(q) ==
  LET inL == QN(q, "z1", F2(pQ, nx, B0))   inR == QN(q, "w1", F2(pQ, ny, B0))
      outL == QN(q, "x1", QN(q, "z1", F2(pQ, B1x, B0)))   outR == QN(q, "y1", QN(q, "w1", F2(pQ, B1x, B0)))
      c1 == << <<"x1", ny>> >>   c2 == << <<"x1", ny>>, <<"z1", nw>> >> IN
  [kind |-> "nested/bind-" \o q,
   cmds |-> << Cmd("assume", "a0", "", inL, <<>>, <<>>), Cmd("assume", "a1", "", Neg(inR), <<>>, <<>>),
               CmdX("anchor", "t1", "", TrueC, <<>>, <<>>, c1),
               CmdX("step", "t1.t1", "verit_refl", TrueC, <<Eqa(nx, ny)>>, <<>>, c1),
               CmdX("anchor", "t1.t2", "", TrueC, <<>>, <<>>, c2),
               CmdX("step", "t1.t2.t1", "verit_refl", TrueC, <<Eqa(nz, nw)>>, <<>>, c2),
               CmdX("step", "t1.t2.t2", "verit_cong", TrueC, <<Iff(F2(pQ, nx, nz), F2(pQ, ny, nw))>>, <<"t1.t1", "t1.t2.t1">>, c2),
               CmdX("step", "t1.t2", "verit_bind", TrueC, <<Iff(inL, inR)>>, <<>>, c2),
               CmdX("step", "t1", "verit_bind", TrueC, <<Iff(outL, outR)>>, <<>>, c1),
               Cmd("step", "t2", "verit_equiv1", TrueC, <<Neg(inL), inR>>, <<"t1.t2">>),
               Cmd("step", "t3", "verit_th_resolution", TrueC, <<>>, <<"t2", "a0", "a1">>) >>]
\* the same formulas nameless, for the design-level sanity of the scenario: satisfiable alone, contradictory with x1 = y1
NestedAssumed(q) == LET Q(b) == IF q = "all" THEN All(TA, b) ELSE Ex(TA, b) IN << Q(F2(pQ, nx, B0)), Neg(Q(F2(pQ, ny, B0))) >>
ASSUME NestedSane == \A q \in {"all", "exists"} :
                       /\ ~Entailed(AsPrems(NestedAssumed(q)), PS(FalseC))
                       /\ Entailed(AsPrems(NestedAssumed(q) \o <<Eqa(nx, ny)>>), PS(FalseC))
\* ------------------------------------------------------------------ emission of the candidates as vectors (spec -> code), once, at start-up
ToJ(i) == [rule |-> i.rule, mut |-> i.mut, prems |-> i.prems, cl |-> i.cl, sizes |-> i.x.sizes, coeffs |-> i.x.coeffs, inst |-> i.x.inst, ctx |-> i.x.ctx, names |-> i.x.names]
ASSUME Emitted == LET cs == SetToSeq(Candidates) IN
                  /\ ndJsonSerialize(IOEnv.VECTOR_FILE, [k \in 1..Len(cs) |-> ToJ(cs[k])])
                  /\ LET ws == SetToSeq({ c \in Candidates : Wrappable(c) }) IN
                     /\ ndJsonSerialize(IOEnv.PROOF_FILE, [k \in 1..Len(ws) |-> ProofOf(ws[k])] \o SetToSeq({ LeakProof(A) : A \in {vp, Neg(vq)} })
                                                            \o << NestedProof("all"), NestedProof("exists") >>)
                     /\ PrintT(<<"proofs", Len(ws)>>)
                  /\ PrintT(<<"vectors", Len(cs), "intended", Cardinality(Intended), "rules", Cardinality(Rules)>>)
=============================================================================
