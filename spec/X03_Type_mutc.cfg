SPECIFICATION Spec
CONSTANTS Depth = 1
 MaxOps = 3
 Pats <- None
 Targs <- None
 Insts <- InstsSmall
 CmpSet <- None
 Cmp3Set <- None
 Kinds <- KindsCompose
 Record = FALSE
 EmitAll = FALSE
INVARIANT StepsLawful
INVARIANT LookLawful
INVARIANT InstsFunctional
INVARIANT ComposeLaw
INVARIANT MatcherIsReference
INVARIANT OrdersLawful
CHECK_DEADLOCK FALSE
