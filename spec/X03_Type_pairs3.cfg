SPECIFICATION Spec
CONSTANTS Depth = 2
 MaxOps = 1
 Pats <- None
 Targs <- TargsAll
 Insts <- None
 CmpSet <- CmpAll
 Cmp3Set <- CmpSmall
 Kinds <- KindsPair
 Record = TRUE
 EmitAll = TRUE
INVARIANT StepsLawful
INVARIANT LookLawful
INVARIANT InstsFunctional
INVARIANT ComposeLaw
INVARIANT MatcherIsReference
INVARIANT OrdersLawful
CHECK_DEADLOCK FALSE
