-------------------------------- MODULE C19_Ctx --------------------------------
(* S-specification for C19, second machine: the CONTEXT of a calculation (integral/context.py).       *)
(*                                                                                                   *)
(* Rules are applied to expressions in a context that holds the stated conditions and the identities  *)
(* (with their side conditions) that may be used.  Two families of behaviours:                         *)
(*                                                                                                   *)
(*  fam "hist"   HISTORIES: up to MaxH rule applications on DIFFERENT integrals that share ONE          *)
(*               parent-less context (as rules.check_item and integral/slagle.py do), in every order.  *)
(*               Rules read the context and never write it: the reference result of a step is a        *)
(*               function of (expression, rule, stated conditions) only.  The rule that consults the     *)
(*               conditions is Substitution u = (x - c)^2, which has to solve for x and is only          *)
(*               admissible where u is monotonic on the interval of integration.                         *)
(*  fam "ident"  IDENTITIES with two or three side conditions (a scratch book inside the exactly          *)
(*               evaluable fragment: closed forms that are right exactly where the conditions hold),      *)
(*               applied by DefiniteIntegralIdentity to every instantiation of the parameters by          *)
(*               variables / positive / negative constants, under every set of stated sign conditions     *)
(*               (all hold / only the first / only the last / none ...).  The identity may be used only   *)
(*               if ALL its conditions are established.                                                 *)
(*                                                                                                   *)
(*  invariants   StepsSameValue  every step has the value of its expression at every grid point that       *)
(*                               satisfies the STATED conditions                                           *)
(*               FactsUnchanged  the conditions of the shared context are the stated ones                  *)
(*  Every transition is written as a vector (stated conditions, identities, the whole history so far)       *)
(*  and replayed into the real code.                                                                   *)
EXTENDS C19_Rules
CONSTANTS MaxH, HPairs, NBodies, Idents
HP3 == {<<0, 1>>, <<-1, 1>>, <<2, 0>>}
HP5 == {<<0, 1>>, <<-1, 1>>, <<2, 0>>, <<-2, -1>>, <<0, 2>>}
I12 == {1, 2}
I123 == {1, 2, 3}

V(n) == <<"var", n>>
Abs(a) == <<"fun", "abs", <<a>>>>
Gt0(t) == <<"op", ">", t, K(0)>>
Lt0(t) == <<"op", "<", t, K(0)>>

(* ------------------------------ histories on a shared context ------------------------------ *)
HBodySeq == <<Pow(X, 2), Add(Pow(X, 2), K(1)), Mul(X, Add(X, K(1))), Pow(X, 3)>>
HInts == {IntE("x", K(p[1]), K(p[2]), HBodySeq[i]) : p \in HPairs, i \in 1..NBodies}
FreeExprs == {Add(Abs(X), K(1))}                  \* a free variable named like the integration variable of other steps
Sq(c) == IF c = 0 THEN Pow(X, 2) ELSE Pow(Add(X, K(-c)), 2)
\* <<reference rule, string params, expression params of the real rule, reference params>>
HOffers(e) ==
  IF e[1] = "int"
  THEN {<<"SubstitutionSq", <<"u">>, <<Sq(c)>>, <<K(c)>>>> : c \in {0, 1}}
       \cup {<<"Substitution", <<"u">>, <<Add(Mul(K(-1), X), K(1))>>, <<K(-1), K(1)>>>>, <<"SplitRegion", <<>>, <<K(0)>>, <<K(0)>>>>}
  ELSE {<<"FullSimplify", <<>>, <<>>, <<>>>>}
Leak == FALSE          \* (the specification mutant sets this: the monotonicity test writes its interval into the shared context)
Between(c, lo, hi) == (lo < c /\ c < hi) \/ (hi < c /\ c < lo)
\* reference step: [r, refused]
RefH(o, e) ==
  CASE o[1] = "SubstitutionSq" ->          \* refused where (x - c)^2 is not monotonic; otherwise a branch of the square root (outside the fragment)
         [r |-> IF Between(o[4][1][2], e[3][2], e[4][2]) THEN e ELSE <<"oth", "branch of the inverse">>,
          refused |-> Between(o[4][1][2], e[3][2], e[4][2])]
    [] o[1] = "FullSimplify" -> [r |-> e, refused |-> FALSE]          \* nothing is known about the free variable
    [] OTHER -> [r |-> Ref(o[1], o[4], e), refused |-> FALSE]
FactsAfter(o, e, f) == IF Leak /\ o[1] = "SubstitutionSq" THEN f \o <<<<"op", ">", X, e[3]>>, <<"op", "<", X, e[4]>>>> ELSE f

(* ------------------------------ identities with several side conditions ------------------------------ *)
A == V("a")  B == V("b")  C == V("c")
Cube(t) == Pow(t, 3)
SgnF(t) == Div(Abs(t), t)                  \* 1 where t > 0, -1 where t < 0
Ident(k) ==
  CASE k = 1 -> [lhs |-> IntE("x", K(0), B, Pow(Add(X, A), 2)),
                 rhs |-> Mul(SgnF(A), Div(Mul(Abs(B), Add(Add(Pow(B, 2), Mul(Mul(K(3), A), B)), Mul(K(3), Pow(A, 2)))), K(3))),
                 conds |-> <<Gt0(A), Gt0(B)>>, params |-> <<"a", "b">>]
    [] k = 2 -> [lhs |-> IntE("x", A, B, Pow(X, 2)),
                 rhs |-> Sub(Div(Mul(Abs(B), Pow(B, 2)), K(3)), Div(Mul(Abs(A), Pow(A, 2)), K(3))),
                 conds |-> <<Gt0(A), Gt0(B)>>, params |-> <<"a", "b">>]
    [] k = 3 -> [lhs |-> IntE("x", A, B, Pow(Add(X, C), 2)),
                 rhs |-> Mul(Mul(Mul(SgnF(A), SgnF(B)), SgnF(C)), Div(Sub(Cube(Add(B, C)), Cube(Add(A, C))), K(3))),
                 conds |-> <<Gt0(A), Gt0(B), Gt0(C)>>, params |-> <<"a", "b", "c">>]
\* instantiation of a parameter: a variable (p, q, r) or a constant
ParTerms(i) == {V(<<"p", "q", "r">>[i]), K(2), K(-1)}
RECURSIVE SubstE(_, _)
SubstE(e, m) ==           \* m: function from parameter names to expressions (never the bound variable x)
  CASE e[1] = "var" -> IF e[2] \in DOMAIN m THEN m[e[2]] ELSE e
    [] e[1] = "op" -> <<"op", e[2], SubstE(e[3], m), SubstE(e[4], m)>>
    [] e[1] = "neg" -> <<"neg", SubstE(e[2], m)>>
    [] e[1] = "fun" -> <<"fun", e[2], [i \in 1..Len(e[3]) |-> SubstE(e[3][i], m)] \o <<>>>>
    [] e[1] = "int" -> <<"int", e[2], SubstE(e[3], m), SubstE(e[4], m), SubstE(e[5], m)>>
    [] OTHER -> e
GoodInst(k, m) == \A i \in 1..Len(Ident(k).params) : m[Ident(k).params[i]] \in ParTerms(i)
Insts(k) == LET ps == Ident(k).params IN
            {m \in [{ps[i] : i \in 1..Len(ps)} -> UNION {ParTerms(i) : i \in 1..3}] : GoodInst(k, m)}
\* stated conditions: for every variable of the instance nothing, > 0 or < 0
VarsOf(k, m) == {m[n] : n \in DOMAIN m} \cap {V("p"), V("q"), V("r")}
CondChoices(vs) == [vs -> {"none", "pos", "neg"}]
RECURSIVE CondSeq(_, _)
CondSeq(vseq, ch) == IF Len(vseq) = 0 THEN <<>>
                     ELSE LET v == vseq[1]  rest == CondSeq(Tail(vseq), ch) IN
                          IF ch[v] = "pos" THEN <<Gt0(v)>> \o rest ELSE IF ch[v] = "neg" THEN <<Lt0(v)>> \o rest ELSE rest
VarSeq(k, m) == LET s == <<V("p"), V("q"), V("r")>> IN SelectSeq(s, LAMBDA v : v \in VarsOf(k, m))
\* a side condition t > 0 is established: numerically for a constant, by a stated condition for a variable
Est(c, f) == IF c[3][1] = "const" THEN CondHolds(c, <<>>) ELSE \E i \in 1..Len(f) : f[i] = c
AllEst(cs, f) == \A i \in 1..Len(cs) : Est(cs[i], f)
RefIdent(k, m, f) == LET id == Ident(k)  e == SubstE(id.lhs, m)
                         cs == [i \in 1..Len(id.conds) |-> SubstE(id.conds[i], m)] \o <<>> IN
                     IF AllEst(cs, f) THEN SubstE(id.rhs, m) ELSE e

(* ------------------------------ the machine ------------------------------ *)
VARIABLES fam, facts0, facts, idk, inst, hs
vars == <<fam, facts0, facts, idk, inst, hs>>
StepRec(e, rule, ps, pe, r, refused) == [e |-> e, rule |-> rule, ps |-> ps, pe |-> pe, r |-> r, refused |-> refused]
CodeStep(s) == [e |-> s.e, rule |-> IF s.rule = "SubstitutionSq" THEN "Substitution" ELSE s.rule, ps |-> s.ps, pe |-> s.pe]
VecOf(f, k, st) ==
  [fam |-> fam, conds |-> f, root |-> fam = "hist", book |-> IF fam = "hist" THEN "base" ELSE "none",
   idents |-> IF k = 0 THEN <<>> ELSE << <<<<"op", "=", Ident(k).lhs, Ident(k).rhs>>, Ident(k).conds>> >>,
   steps |-> [i \in 1..Len(st) |-> CodeStep(st[i])] \o <<>>]
ChunkLen == 250
Log(v) == LET cur == TLCGet(7) IN
          IF Len(cur) >= ChunkLen THEN TLCSet(8, Append(TLCGet(8), cur)) /\ TLCSet(7, <<v>>) ELSE TLCSet(7, Append(cur, v))
RECURSIVE Flatten(_, _)
Flatten(cs, i) == IF i > Len(cs) THEN <<>> ELSE cs[i] \o Flatten(cs, i + 1)

Init == /\ TLCSet(7, <<>>) /\ TLCSet(8, <<>>)
        /\ hs = <<>>
        /\ \/ fam = "hist" /\ idk = 0 /\ facts0 = <<>> /\ inst = <<>>
           \/ /\ fam = "ident" /\ idk \in Idents
              /\ inst \in Insts(idk)
              /\ \E ch \in CondChoices(VarsOf(idk, inst)) : facts0 = CondSeq(VarSeq(idk, inst), ch)
        /\ facts = facts0
StatedConds == facts0
HistStep == /\ fam = "hist" /\ Len(hs) < MaxH
            /\ \E e \in HInts \cup FreeExprs : \E o \in HOffers(e) :
                 LET rr == RefH(o, e)  s == StepRec(e, o[1], o[2], o[3], rr.r, rr.refused) IN
                 /\ hs' = Append(hs, s)
                 /\ facts' = FactsAfter(o, e, facts)
                 /\ Log(VecOf(StatedConds, 0, Append(hs, s)))
            /\ UNCHANGED <<fam, facts0, idk, inst>>
IdentStep == /\ fam = "ident" /\ Len(hs) = 0
             /\ LET m == inst  e == SubstE(Ident(idk).lhs, m)
                    s == StepRec(e, "DefiniteIntegralIdentity", <<>>, <<>>, RefIdent(idk, m, StatedConds), FALSE) IN
                /\ hs' = <<s>>
                /\ Log(VecOf(StatedConds, idk, <<s>>))
             /\ UNCHANGED <<fam, facts0, facts, idk, inst>>
Next == HistStep \/ IdentStep
Spec == Init /\ [][Next]_vars

StepsSameValue == \A i \in 1..Len(hs) : LET r == SameValue(hs[i].e, hs[i].r, StatedConds) IN ~r.fails
FactsUnchanged == facts = facts0
\* non-vacuity of the identity family: an applied identity is compared at some admissible point
IdentCompared == fam = "ident" /\ Len(hs) = 1 /\ hs[1].r # hs[1].e => SameValue(hs[1].e, hs[1].r, StatedConds).cmp
Emit == LET vs == Flatten(TLCGet(8), 1) \o TLCGet(7) IN
        /\ Len(vs) > 0
        /\ ndJsonSerialize(IOEnv.VECTOR_FILE, vs)
        /\ PrintT(<<"ctx vectors", Len(vs), "hist", Cardinality({i \in 1..Len(vs) : vs[i].fam = "hist"}),
                   "ident", Cardinality({i \in 1..Len(vs) : vs[i].fam = "ident"})>>)
=============================================================================
