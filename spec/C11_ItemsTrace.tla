--------------------------- MODULE C11_ItemsTrace ---------------------------
(* T-specification for C11.  Events come from the real item machinery (harness/drivers/c11.py):                      *)
(*  kind "item" : what items.parse_item made of an item description (TLC-generated candidate definitions and HISTORIES  *)
(*                of definitions in one theory, seeded                                                              *)
(*                random ones, generated datatypes / functions / predicates, every item of the library files):      *)
(*                error, whether the generated extension could be installed, the PARSED definition (codec),         *)
(*                the generated constants / theorems, the declared types and arities after installation             *)
(*  kind "rt"   : {before, after} of  export_json -> parse_item  and  get_display -> parse_edit                      *)
(* Clauses                                                                                                          *)
(*   SyntacticOK : accepted as a definition (no error, extension installed)  =>  the PARSED equation satisfies the  *)
(*                 statement's literal conditions (C11_Def!SyntacticOK) - the violation clause                      *)
(*   NewConst    : an accepted definitional item (def / def.ind / def.pred) introduces a NEW constant: the name was  *)
(*                 not declared, or it is overloadable and the instance type overlaps no earlier instance           *)
(*   ExtOK       : every generated theorem / constant of an installed item is well-typed over the extended signature *)
(*   RoundTrip   : before = after                                                                                    *)
(*   SPEC_Conservative : accepted /\ SyntacticOK /\ examinable /\ ~Conservative: the two readings disagree - an error *)
(*                 of the SPECIFICATION (reported as machinery failure by the check, never as a violation)           *)
(* Divergence (informational): the code refuses a candidate that satisfies all conditions; or accepts at parse time   *)
(* what the theory then refuses to install.                                                                          *)
EXTENDS C11_Def, TraceLib

NM == 2
IsItem(e) == e.kind = "item"
IsRt(e) == e.kind = "rt"
Accepted(e) == e.error = "" /\ e.installed
\* the definition the parser produced, read off the parsed proposition
PD(e) == LET p == e.parsed.prop lhs == Arg1(p) IN [name |-> e.parsed.name, T |-> e.parsed.T, args |-> ArgsOf(lhs), rhs |-> Arg(p)]
ShapeOK(e) == IsEq(e.parsed.prop) /\ HeadOf(Arg1(e.parsed.prop)) = <<"const", e.parsed.name, e.parsed.T>>
ParsedOK(e) == ShapeOK(e) /\ SyntacticOK(PD(e))
\* the constant introduced by a definitional item (def / def.ind / def.pred) is NEW: the name was not declared, or it is
\* overloadable and the type does not OVERLAP any type at which the name has been introduced by an earlier item of the theory
NewConstOK(e) == /\ ~e.declared_before.known \/ e.declared_before.ov
                 /\ \A i \in 1..Len(e.prior_insts) : ~Overlaps(e.prior_insts[i], e.newconst.T)
\* ExtOK
Sq(j) == { j.h[i] : i \in 1..Len(j.h) } \cup {j.c}
ExtOK(e) == /\ \A i \in 1..Len(e.ext_thms) : \A t \in Sq(e.ext_thms[i]) : PropOK(t, e.csig, e.tsig)
            /\ \A i \in 1..Len(e.ext_consts) : /\ TypeWF(e.ext_consts[i][2], e.tsig)
                                               /\ ConstOK(<<"const", e.ext_consts[i][1], e.ext_consts[i][2]>>, e.csig)
            /\ \A i \in 1..Len(e.ext_types) : e.ext_types[i][1] \in Keys(e.tsig) /\ Lookup(e.tsig, e.ext_types[i][1]) = e.ext_types[i][2]
DefAccepted(e) == IsItem(e) /\ e.isdef /\ Accepted(e)
\* verdict of an accepted definition: both readings, each evaluated once
DefV(e) == LET shape == ShapeOK(e)
               ok == shape /\ SyntacticOK(PD(e))
               cj == shape /\ CExaminable(PD(e), NM)
               cons == cj /\ Conservative(PD(e), NM)
           IN [ok |-> ok, new |-> NewConstOK(e), judged |-> cj, cons |-> cons,
               conds |-> IF shape THEN FailedConds(PD(e)) ELSE {"shape"}]
DefClauses(v) == (IF ~v.ok THEN {"SyntacticOK"} ELSE {})
                 \cup (IF v.ok /\ v.new /\ v.judged /\ ~v.cons THEN {"SPEC_Conservative"} ELSE {})
\* information for the verdict file: which conditions fail, and the semantic witness
DefInfo(e, v) == [tid |-> e.tid, conds |-> v.conds, conservative |-> IF v.judged THEN (IF v.cons THEN "yes" ELSE "NO") ELSE "not evaluated"]
ItemClauses(e) == IF ~IsItem(e) \/ ~Accepted(e) THEN {}
                  ELSE (IF ExtOK(e) THEN {} ELSE {"ExtOK"}) \cup (IF e.isdefn /\ ~NewConstOK(e) THEN {"NewConst"} ELSE {})
RtClauses(e) == IF e.before = e.after THEN {} ELSE {"RoundTrip_" \o e.route}
Nontrivial(e) == IsRt(e) \/ (IsItem(e) /\ Accepted(e))
Diverges(e) == IsItem(e) /\ \/ (e.error = "" /\ ~e.installed)
                            \/ (e.src = "vec" /\ e.error # "" /\ e.cand.sok /\ e.cand.newname /\ e.cand.wf)
                            \/ (e.src = "hist" /\ e.cand.accept # Accepted(e))       \* the reference machine decides this step of the history differently
TNext == l <= Len(Trace) /\ LET e == Trace[l] IN
         IF IsRt(e) THEN TStep(e.tid, RtClauses(e), TRUE, FALSE)
         ELSE IF DefAccepted(e) THEN LET v == DefV(e) IN TStepInfo(e.tid, ItemClauses(e) \cup DefClauses(v), TRUE, Diverges(e), DefInfo(e, v))
         ELSE TStep(e.tid, ItemClauses(e), Nontrivial(e), Diverges(e))
TSpec == TInit /\ [][TNext]_l
=============================================================================
