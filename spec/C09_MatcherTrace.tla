--------------------------- MODULE C09_MatcherTrace ---------------------------
(* T-specification for C09.  Events come from the real matcher (harness/drivers/c09.py):                   *)
(*   [tid, call ("single" | "list"), ps, ts (sequences of patterns / targets), inst0 (the caller's          *)
(*    instantiation projected BEFORE the call), outcome ("success" | "MatchException" | "other"), exc,       *)
(*    inst1 (returned instantiation), inst0after (the caller's object projected AFTER the call), kind, seed, gi]*)
(* Clauses (the contract of C09_MatchLaws):                                                                   *)
(*   Matches          success => every pattern, instantiated by inst1 (types and terms, as Term.subst does)  *)
(*                    and normalised, equals its target up to beta-eta; an instantiation that cannot be       *)
(*                    applied at all (ill-typed) fails the clause                                             *)
(*   Extends          success => inst1 extends inst0 (same value for every type / term variable given)        *)
(*   InputUnmodified  the caller's instantiation object is the same after the call (success or not)           *)
(*   Complete         first-order beta-normal patterns: a literal instance exists (brute force over closed    *)
(*                    subterms and types of the targets, extending inst0) => the call succeeds, whatever      *)
(*                    the exception class                                                                     *)
(* Divergence (informational): a foreign exception; failure on an input that is matchable by construction.    *)
EXTENDS C09_MatchLaws, TraceLib
N(e) == Len(e.ps)
InputsOK(e) == /\ Len(e.ts) = N(e)
               /\ \A i \in 1..N(e) : WellTyped(e.ps[i]) /\ WellTyped(e.ts[i])
               /\ SVarsConsistent(UNION { SVarsOf(e.ps[i]) : i \in 1..N(e) })
               /\ \A k \in 1..Len(e.inst0.sv) : WellTyped(e.inst0.sv[k][2])
AllMatch(e) == \A i \in 1..N(e) : Matches(e.ps[i], e.ts[i], e.inst1)
Same(a, b) == a = b
\* the brute force is bounded: few free schematic (type) variables, few candidate types
Small(e) == /\ Cardinality(FreeSVars(e.ps, e.inst0)) <= 6
            /\ LET n == Cardinality(FreeSTVars(e.ps, e.inst0)) k == Cardinality(TypeCands(e.ts)) IN
               n = 0 \/ (n = 1 /\ k <= 60) \/ (n = 2 /\ k <= 16)
CompleteExamined(e) == FOFragment(e.ps) /\ Small(e)
ClausesOf(e) ==
  IF ~InputsOK(e) THEN {}
  ELSE (IF Same(e.inst0, e.inst0after) THEN {} ELSE {"InputUnmodified"})
       \cup (IF e.outcome = "success"
             THEN (IF AllMatch(e) THEN {} ELSE {"Matches"}) \cup (IF Extends(e.inst1, e.inst0) THEN {} ELSE {"Extends"})
             ELSE (IF CompleteExamined(e) /\ FOMatchable(e.ps, e.ts, e.inst0) THEN {"Complete"} ELSE {}))
NontrivialOf(e) == InputsOK(e) /\ (e.outcome = "success" \/ CompleteExamined(e))
DivergesOf(e) == InputsOK(e) /\ e.outcome # "success"
                 /\ (e.outcome # "MatchException" \/ (e.kind \in {"pos", "raw", "etac", "etax", "self"} /\ e.seed \in {"empty", "full", "extra", "ty", "sv1", "args"}))
TNext == LET e == Trace[l] IN TStep(e.tid, ClausesOf(e), NontrivialOf(e), DivergesOf(e))
TSpec == TInit /\ [][TNext]_l
=============================================================================
