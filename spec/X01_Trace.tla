------------------------------ MODULE X01_Trace ------------------------------
(* T-specification of X01.  Events (harness/drivers/x01.py), one per step of a history run in the REAL code:                     *)
(*  kind "thy": op = [k, checked, items, name, st] on the Theory object number tgt; B / A = what the target answers before / after  *)
(*     (JSON arrays of pairs, see X01_Defs: ty co ov th at sv ck hs mc), N = the last object (the new one after a copy),           *)
(*     others = <<object, digest before, digest after>> of every other object, out / exc = outcome, res = statement returned by   *)
(*     a query; lost = the code could not follow the specification's behaviour (a copy raised): not examined                      *)
(*  kind "ctx": op = [k, name, vs, how]; B / A = [thy, ctx (identity tokens), cc (content of the context), thyd (digest of the      *)
(*     global theory)], heldB / heldA = <<token, digest>> of every theory seen, cheldB / cheldA = <<token, content>> of every       *)
(*     Context seen, entry / dirty = the driver's record of the block an exit leaves, want = content asked for, canon = digest of   *)
(*     the loaded theory in a fresh process                                                                                      *)
(* The clauses are the operators of X01_Defs that the S specifications X01_Theory / X01_Context have as invariants.               *)
EXTENDS X01_Defs, TraceLib
PS(p) == [ty |-> ToSet(p.ty), co |-> ToSet(p.co), ov |-> ToSet(p.ov), th |-> ToSet(p.th), at |-> ToSet(p.at),
          sv |-> ToSet(p.sv), ck |-> ToSet(p.ck), hs |-> ToSet(p.hs), mc |-> ToSet(p.mc)]
ThyClauses(e) ==
  LET B == PS(e.B)
      A == PS(e.A)
      N == PS(e.N)
  IN StepClauses(e.op, B, A, N, e.out, e.exc, e.res)
     \cup BrokenBy(B, A) \cup (IF e.op.k = "copy" THEN BrokenBy(B, N) ELSE {})
     \cup (IF \A i \in 1..Len(e.others) : e.others[i][2] = e.others[i][3] THEN {} ELSE {"CopyIsolation"})
ThyDiverges(e) == StepDiverges(e.op, PS(e.B), PS(e.A), PS(e.N), e.out)
G(g) == [thy |-> g.thy, ctx |-> g.ctx, cc |-> ToSet(g.cc), thyd |-> g.thyd]
CC(s) == { <<s[i][1], ToSet(s[i][2])>> : i \in 1..Len(s) }
Entry(x) == [thy |-> x.thy, ctx |-> x.ctx, cc |-> ToSet(x.cc)]
CtxC(e) == CtxClauses(e.op, G(e.B), G(e.A), ToSet(e.heldB), ToSet(e.heldA), CC(e.cheldB), CC(e.cheldA), Entry(e.entry), e.dirty, e.out,
                      ToSet(e.want), e.canon, e.hascanon)
CtxD(e) == CtxDiverges(e.op, G(e.B), G(e.A), CC(e.cheldB), CC(e.cheldA), Entry(e.entry), e.dirty, e.out, ToSet(e.want))
ClausesOf(e) == CASE e.kind = "thy" /\ ~e.lost -> ThyClauses(e) [] e.kind = "ctx" -> CtxC(e) [] OTHER -> {}
Nontrivial(e) == (e.kind = "thy" /\ ~e.lost) \/ (e.kind = "ctx" /\ e.op.k \in {"exit", "setctx", "load"})
Diverges(e) == CASE e.kind = "thy" /\ ~e.lost -> ThyDiverges(e) [] e.kind = "ctx" -> CtxD(e) [] OTHER -> TRUE
TNext == LET e == Trace[l] IN TStep(e.tid, ClausesOf(e), Nontrivial(e), Diverges(e))
TSpec == TInit /\ [][TNext]_l
=============================================================================
