SPECIFICATION Spec
CONSTANTS
  NProc = 2
  NGuards = 4
  NAsgs = 4
  NInvs = 2
  TwoArr = FALSE
  Record = FALSE
  MaxSteps = 0
  WpMulti = 0
  RunSet = 0
  DoEmit = TRUE
  DoWp = FALSE
  DoRun = FALSE
CHECK_DEADLOCK FALSE
