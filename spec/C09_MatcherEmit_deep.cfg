SPECIFICATION ESpec
CONSTANTS Depth = 3
 MaxSize = 9
 Rich = TRUE
CHECK_DEADLOCK FALSE
