SPECIFICATION Spec
CONSTANTS Wide = TRUE
INVARIANTS NativeAgrees RingLaws RatLaws
CHECK_DEADLOCK FALSE
