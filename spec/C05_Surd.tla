------------------------------- MODULE C05_Surd -------------------------------
(* Exact comparison of numbers of the form  q + c * sqrt r  (q, c, r rational), over the arbitrary-precision   *)
(* rationals of lib/BigInt.tla.  No root is ever approximated: everything is decided by sign analysis and      *)
(* squaring, i.e. with rational arithmetic only.                                                               *)
(*                                                                                                            *)
(* ssqrt is the SIGNED square root  ssqrt s = sgn s * sqrt |s|  -- exactly holpy's sqrt, which is defined on   *)
(* all reals by  sqrt x = (SOME y. real_sgn y = real_sgn x /\ y ^ 2 = abs x)  (library/real.json).  ssqrt is a  *)
(* strictly increasing bijection of the reals; its inverse is the signed square  SSq d = d * |d|.  Hence        *)
(*       p < ssqrt s   iff   SSq p < s          (and likewise for = and >)                                     *)
(* and  c * ssqrt r = ssqrt (SSq c * r),  1 / ssqrt s = ssqrt (1 / s)  (with 1 / 0 = 0).                          *)
(* A SURD is a pair << q, s >> of BigInt rationals (unnormalised, positive denominators) denoting q + ssqrt s. *)
(* The laws of this module are model-checked in spec/C05_SurdLaws.tla against an independent numerical         *)
(* enclosure computed with TLC's native integers.                                                             *)
EXTENDS BigInt

SSq(d) == QMul(d, QAbs(d))
\* the sign of  p - ssqrt s
CmpQS(p, s) == QCmp(SSq(p), s)
SFour == QInt(<<1, <<4>>>>)
\* the sign of  (q1 + ssqrt s1) - (q2 + ssqrt s2)   for a = << q1, s1 >>, b = << q2, s2 >>.
\* With d = q2 - q1, x = ssqrt s1, y = ssqrt s2 this is the sign of x - (d + y).  When neither d nor a root vanishes:
\* the sign sg of d + y is decided first (y against -d); then both sides are mapped through SSq, where
\*   SSq (d + y) = sg * (d^2 + |s2| + 2 d y)   and   2 d y = ssqrt (4 * SSq d * s2),
\* which leaves a rational against one signed root.
SCmp(a, b) ==
  LET d == QSub(b[1], a[1])  s1 == a[2]  s2 == b[2] IN
  IF QSgn(d) = 0 THEN QCmp(s1, s2)
  ELSE IF QSgn(s2) = 0 THEN -CmpQS(d, s1)
  ELSE IF QSgn(s1) = 0 THEN CmpQS(QNeg(d), s2)
  ELSE LET sg == -CmpQS(QNeg(d), s2)
           base == QAdd(QMul(d, d), QAbs(s2))
           cross == QMul(QMul(SFour, SSq(d)), s2) IN
       IF sg = 0 THEN QSgn(s1)
       ELSE IF sg > 0 THEN CmpQS(QSub(s1, base), cross)
       ELSE CmpQS(QAdd(s1, base), QNeg(cross))

\* ---------------------------------------------------------------- the operations under which surds are closed
SRat(q) == <<q, QZero>>
SIsRat(a) == QSgn(a[2]) = 0
SRoot(q) == <<QZero, q>>                                   \* sqrt q for a rational q of either sign
SNeg(a) == <<QNeg(a[1]), QNeg(a[2])>>
SAddQ(a, p) == <<QAdd(a[1], p), a[2]>>                     \* a + p for a rational p
SMulQ(a, k) == <<QMul(a[1], k), QMul(a[2], SSq(k))>>       \* a * k for a rational k
SSgn(a) == SCmp(a, SRat(QZero))
SAbs(a) == IF SSgn(a) < 0 THEN SNeg(a) ELSE a
SHasInv(a) == QSgn(a[1]) = 0                               \* the inverse of a pure root is a pure root (HOL: 1 / 0 = 0)
SInv(a) == <<QZero, QInv(a[2])>>
=============================================================================
