----------------------------- MODULE X02_ItemId -----------------------------
(* S-specification of X02 (e): the arithmetic of line identifiers (kernel/proof.py ItemID.incr_id_after, decr_id,      *)
(* incr_id, last, can_depend_on, ==) against the TREE OF LINES.  The state is the shape of a proof by POSITION only:   *)
(* D = the depths of its lines in pre-order (X02_Defs: XPath = the path of positions of a line, XVisible = which       *)
(* earlier lines a line may cite, XInsert / XRemove = splicing blank lines in / cutting a line with its block out).    *)
(*   actions  Insert(i, n) : n blank lines in front of line i;   Remove(i) : line i and the lines inside it           *)
(*   property after every step, for every line that survives: the identifier computed by the ARITHMETIC from its old  *)
(*            identifier is its new path of positions; can_depend_on on identifiers is visibility on positions; it is  *)
(*            preserved by the edits; identifiers are equal iff the lines are the same.                                *)
(* With Emit = TRUE every behaviour of MaxOps steps is printed and replayed on real Proof / ItemID objects.            *)
EXTENDS X02_Defs, Json
CONSTANTS MaxOps, MaxLines, MaxDepth, Emit
Shapes == { <<1, 1, 2, 2, 3, 2, 1>>, <<1, 2, 3, 3, 1, 2>>, <<1, 1, 1>> }
VARIABLES D, prevD, op, nops, hist
vars == <<D, prevD, op, nops, hist>>
NoOp == <<"none", 0, 0>>
Init == D \in Shapes /\ prevD = D /\ op = NoOp /\ nops = 0 /\ hist = <<>>
Step(o, new) == /\ D' = new /\ prevD' = D /\ op' = o /\ nops' = nops + 1
                /\ hist' = Append(hist, [op |-> o, before |-> D, after |-> new])
                /\ (Emit /\ nops + 1 = MaxOps => PrintT(<<"X02I", ToJson(hist')>>))
Insert(i, n) == nops < MaxOps /\ Len(D) + n <= MaxLines /\ Step(<<"ins", i, n>>, XInsert(D, i, n))
\* the only line of a proof / block is not removed (the callers never do it: a block keeps its last line)
Siblings(i) == LET pf == XParF(D) IN { j \in 1..Len(D) : D[j] = D[i] /\ pf[j] = pf[i] }
Remove(i) == nops < MaxOps /\ Cardinality(Siblings(i)) >= 2 /\ Step(<<"rem", i, 0>>, XRemove(D, i))
\* a blank line becomes a block: a first line inside it (set_line + subproof; keeps shapes deep)
Next == \E i \in 1..Len(D) : (\E n \in 1..2 : Insert(i, n)) \/ Remove(i)
Spec == Init /\ [][Next]_vars

ShapeOK == XShapeOK(D)
P(d, i) == XPath(d, i)
\* position after the last step of the line that was at position j before it (0 = removed)
After(j) == IF op[1] = "ins" THEN XPosAfterInsert(op[2], op[3], j) ELSE XPosAfterRemove(prevD, op[2], j)
ArithmeticIsPosition ==
  op # NoOp => LET pd == XPaths(D) pp == XPaths(prevD) IN \A j \in 1..Len(prevD) : After(j) # 0 =>
     pd[After(j)] = IF op[1] = "ins" THEN XIncrAfter(pp[j], pp[op[2]], op[3]) ELSE XDecrId(pp[j], pp[op[2]])
\* the new blank lines get the identifiers  start, start + 1, .. (incr_id)
NewLinesNumbered ==
  op[1] = "ins" => LET pd == XPaths(D) s == P(prevD, op[2]) IN \A k \in 0..(op[3] - 1) : pd[op[2] + k] = [s EXCEPT ![Len(s)] = @ + k]
DependsIsVisibility == LET pd == XPaths(D) vis == XVisPairs(D) IN \A a \in 1..Len(D) : \A b \in 1..Len(D) : LCanDependOn(pd[a], pd[b]) <=> (<<a, b>> \in vis)
VisibilityPreserved ==
  op # NoOp => LET v0 == XVisPairs(prevD) v1 == XVisPairs(D) IN \A a \in 1..Len(prevD) : \A b \in 1..Len(prevD) :
     (After(a) # 0 /\ After(b) # 0) => ((<<a, b>> \in v0) <=> (<<After(a), After(b)>> \in v1))
IdsDistinct == LET pd == XPaths(D) IN \A a \in 1..Len(D) : \A b \in 1..Len(D) : (pd[a] = pd[b]) <=> (a = b)
Numbered == LET pd == XPaths(D) IN LContiguous([i \in 1..Len(D) |-> <<pd[i], i, <<>> >>])
\* closing the gap undoes opening it
DecrUndoesIncr == LET pd == XPaths(D) IN \A a \in 1..Len(D) : \A s \in 1..Len(D) : XDecrId(XIncrAfter(pd[a], pd[s], 1), pd[s]) = pd[a]
=============================================================================
