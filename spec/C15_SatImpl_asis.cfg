SPECIFICATION Spec
CONSTANTS Dedup = FALSE
 Conform = TRUE
 Prune = FALSE
INVARIANT VerdictCorrect
INVARIANT CertificateValid
INVARIANT TrailConsistent
INVARIANT ReasonsAreUnit
INVARIANT LearnedEntailed
INVARIANT Progress
INVARIANT Terminates
INVARIANT Observe
POSTCONDITION ConfPost
CHECK_DEADLOCK FALSE
