--------------------------- MODULE C08_InferTrace ---------------------------
(* T-specification for C08.  Events come from the real syntax/infertype.type_infer      *)
(* (harness/drivers/c08.py):                                                            *)
(*   [tid, key, fam, keep, declared, skel, ctx [vars, svars], sig, orig, outcome, cls,  *)
(*    err, result]                                                                      *)
(* Clauses (names of the failing ones are the verdict):                                 *)
(*   outcome = "term":  Determined, WellTyped, SameShape, KeepAnnot, KeepDecl, OneType, *)
(*                      ConstInst, NoInternal            (GoodResult of C08_Contract)   *)
(*   ErasureRecovers :  the skeleton is an erasure of the well-typed original recorded  *)
(*                      in the event and all its variables are declared => the result   *)
(*                      is the original, or the error is "Unspecified type" and some    *)
(*                      constant / binder type had been erased                          *)
(*   OwnError        :  an exception of a foreign class (DESIGN section 4 rule 4)        *)
(*   Terminates      :  RecursionError / MemoryError / timeout AND the as-found model    *)
(*                      (C08_InferAlgo with the cached-reach occurs check) accepts a     *)
(*                      cyclic binding for this very skeleton (rule 5: model-level       *)
(*                      explanation);                                                    *)
(*                      without the explanation the event is only a divergence (SUSPECT) *)
(* Divergence (informational): the outcome differs from the outcome of the algorithm     *)
(* model with the parameters (C08_EOC, C08_AVC) that the check derived from its probe.   *)
EXTENDS C08_Contract, TraceLib

EOC == IOEnv.C08_EOC = "TRUE"
AVC == IOEnv.C08_AVC = "TRUE"
MaxModelSize == 120
\* the event is inside the property's quantifier: a well-formed skeleton over declared constants
InQuantifier(e) == WellFormed(e.skel, 0) /\ \A c \in ConstOccs(e.skel) : c[2] \in Keys(e.sig)
Resource(e) == e.outcome = "timeout" \/ (e.outcome = "other" /\ e.cls \in {"RecursionError", "MemoryError"})
Kind(e) == IF e.outcome \in {"term", "own"} THEN e.outcome ELSE "foreign"
ErasureOf(e) == e.orig # NoTerm /\ ErasureApplies(e.skel, e.ctx, e.sig, e.orig)
Explained(e) == Size(e.skel) <= MaxModelSize /\ Outcome(e.skel, e.ctx, e.sig, Opt(FALSE, AVC), TRUE).kind = "diverged"
Clauses(e) ==
  IF ~InQuantifier(e) THEN {}
  ELSE (IF e.outcome = "term" THEN GoodClauses(e.skel, e.ctx, e.sig, e.result) ELSE {})
       \cup (IF e.outcome \in {"term", "own"} /\ ErasureOf(e) THEN ErasureClauses(e.skel, e.outcome, e.err, e.result, e.orig) ELSE {})
       \cup (IF Resource(e) THEN (IF Explained(e) THEN {"Terminates"} ELSE {})
             ELSE IF e.outcome = "other" THEN {"OwnError"} ELSE {})
Model(e) == Outcome(e.skel, e.ctx, e.sig, Opt(EOC, AVC), TRUE)
Agrees(e) == LET m == Model(e) IN
   CASE e.outcome = "term" -> m.kind = "term" /\ m.t = e.result
     [] e.outcome = "own" -> m.kind = "own" /\ m.err = e.err
     [] Resource(e) -> m.kind = "diverged"
     [] OTHER -> FALSE
\* examined non-trivially: a returned term judged by GoodResult, or an error / rejection that the model accounts for
Nontrivial(e) == InQuantifier(e) /\ Size(e.skel) <= MaxModelSize /\ (e.outcome = "term" \/ ErasureOf(e) \/ Agrees(e))
Diverges(e) == InQuantifier(e) /\ Size(e.skel) <= MaxModelSize /\ ~Agrees(e)
TNext == LET e == Trace[l] IN TStep(e.tid, Clauses(e), Nontrivial(e), Diverges(e))
TSpec == TInit /\ [][TNext]_l
=============================================================================
