------------------------------ MODULE X01_Theory ------------------------------
(* S-specification of X01 (a)-(c): kernel/theory.py Theory objects under copy.copy, unchecked_extend / checked_extend,     *)
(* add_theorem and get_theorem(svar=True), modelled at the level of the MECHANISM: a Theory is a table of six dictionary    *)
(* cells (type_sig, term_sig, overload, theorems, theorems_svar, attributes) in a heap, __copy__ allocates a copy of every   *)
(* cell (depth one), get_theorem(svar=True) fills the theorems_svar cell, an extension list is run item by item and stops   *)
(* at the first item that raises.  One action per public operation: Copy, Ext (unchecked / checked), Put (add_theorem),     *)
(* Query.  The statement's clauses (X01_Defs: StepClauses / ObjClauses, the SAME operators the T specification applies to   *)
(* the real objects) are invariants over the observed values before / after every step, Isolation over all other objects.  *)
(* Mechanism switches (the configuration `fixed` is the reference; the others are the code as found / mutants):            *)
(*   ExtReadd   "replace" | "refuse"      a theorem item whose name exists (kernel: replace)                               *)
(*   PutMode    "invalidate" | "stale" | "refuse"   add_theorem on an existing name: replaces it and drops the cached       *)
(*                                        schematic form (reference) / keeps it (the kernel before the repair) / refuses    *)
(*   TypeMode   "shadow" | "refuse"       a type item whose name exists with another arity (kernel: shadow; not judged)     *)
(*   CopyMode   "deep1" | "shared" | "sharecache"   __copy__ copies every cell / none / all but theorems_svar               *)
(*   AttrMode   "tuple" | "inplace"       attribute values immutable tuples / lists appended in place                      *)
(* Alphabets (Fams, one chosen by Init): small families of operations so that TLC explores ALL histories up to MaxOps; with Record = TRUE every  *)
(* behaviour is emitted by Finish as a vector for harness/drivers/x01.py (EmitAll: every behaviour of 1..MaxOps operations,  *)
(* the driver judges its last step; otherwise only those of MaxOps operations, every step judged: -simulate).               *)
EXTENDS X01_Defs, Json
CONSTANTS MaxOps, MaxObjs, Fams, Record, EmitAll, ExtReadd, PutMode, TypeMode, CopyMode, AttrMode

\* ---- the alphabet ----
NatT == <<"tc", "nat", <<>>>>
TvA == <<"tv", "a">>
TvB == <<"tv", "b">>
Fun2(A, B, C) == FunT(A, FunT(B, C))
DS == << <<>>, <<"bound", 0>> >>
VarA == <<"var", "A", BoolT>>
StA == << <<>>, VarA >>
StB == << <<>>, <<"var", "B", BoolT>> >>
StE == << <<>>, <<"comb", <<"var", "P", FunT(TvA, BoolT)>>, <<"var", "x", TvA>> >> >>
StI == << <<>>, Imp(VarA, VarA) >>
Mk(k, n, ar, T, st, a, p) == <<k, n, ar, T, st, a, p>>
tyN0 == Mk("type", "nat", 0, BoolT, DS, "", "none")
tyN1 == Mk("type", "nat", 1, BoolT, DS, "", "none")
cZ   == Mk("const", "zero", 0, NatT, DS, "", "none")
cZb  == Mk("const", "zero", 0, BoolT, DS, "", "none")
cP   == Mk("const", "plus", 0, Fun2(TvA, TvA, TvA), DS, "", "none")
oP   == Mk("over", "plus", 0, BoolT, DS, "", "none")
cPn  == Mk("const", "plus", 0, Fun2(NatT, NatT, NatT), DS, "", "none")
cPx  == Mk("const", "plus", 0, Fun2(NatT, BoolT, NatT), DS, "", "none")
cPv  == Mk("const", "plus", 0, Fun2(TvB, TvB, TvB), DS, "", "none")
thA  == Mk("thm", "t", 0, BoolT, StA, "", "none")
thB  == Mk("thm", "t", 0, BoolT, StB, "", "none")
thU  == Mk("thm", "u", 0, BoolT, StE, "", "none")
thG  == Mk("thm", "g", 0, BoolT, StI, "", "good")
thH  == Mk("thm", "h", 0, BoolT, StI, "", "bad")
atR  == Mk("attr", "t", 0, BoolT, DS, "hint_rewrite", "none")
atB  == Mk("attr", "t", 0, BoolT, DS, "hint_backward", "none")
junk == Mk("junk", "", 0, BoolT, DS, "", "none")
NoOp == [k |-> "none", checked |-> FALSE, items |-> <<>>, name |-> "", st |-> DS]
ExtOp(c, its) == [NoOp EXCEPT !.k = "ext", !.checked = c, !.items = its]
PutOp(n, st) == [NoOp EXCEPT !.k = "put", !.name = n, !.st = st]
QueryOp(n) == [NoOp EXCEPT !.k = "query", !.name = n]
CopyOp == [NoOp EXCEPT !.k = "copy"]
\* operation templates of a family (applied to every existing object)
Templates(Fam) ==
  CASE Fam = "cache" -> {CopyOp, ExtOp(FALSE, <<thA>>), ExtOp(FALSE, <<thB>>), PutOp("t", StB), QueryOp("t")}
    [] Fam = "sig"   -> {CopyOp, ExtOp(FALSE, <<tyN0>>), ExtOp(FALSE, <<tyN1>>), ExtOp(FALSE, <<cZ>>), ExtOp(FALSE, <<cZb>>),
                         ExtOp(FALSE, <<tyN0, cZ, cZb, thU>>)}
    [] Fam = "over"  -> {CopyOp, ExtOp(FALSE, <<cP>>), ExtOp(FALSE, <<oP>>), ExtOp(FALSE, <<cPn>>), ExtOp(FALSE, <<cPx>>),
                         ExtOp(TRUE, <<cP, oP, cPn, cPv, cZ>>)}
    [] Fam = "attr"  -> {CopyOp, ExtOp(FALSE, <<thA>>), ExtOp(FALSE, <<atR>>), ExtOp(TRUE, <<atB>>), ExtOp(TRUE, <<thG>>),
                         ExtOp(TRUE, <<thU, thH, thA>>), ExtOp(FALSE, <<thA, atR, thB, atB>>), ExtOp(FALSE, <<thU, junk, thA>>), QueryOp("u")}
    [] OTHER -> {CopyOp, ExtOp(FALSE, <<thA>>), ExtOp(FALSE, <<thB>>), ExtOp(FALSE, <<thU>>), PutOp("t", StB), PutOp("t", StA), QueryOp("t"), QueryOp("u"),
                 ExtOp(FALSE, <<tyN0>>), ExtOp(FALSE, <<tyN1>>), ExtOp(FALSE, <<cZ>>), ExtOp(FALSE, <<cZb>>), ExtOp(FALSE, <<tyN0, cZ, cZb, thU>>),
                 ExtOp(FALSE, <<cP>>), ExtOp(FALSE, <<oP>>), ExtOp(FALSE, <<cPn>>), ExtOp(FALSE, <<cPx>>), ExtOp(TRUE, <<cP, oP, cPn, cPv, cZ>>),
                 ExtOp(FALSE, <<atR>>), ExtOp(TRUE, <<atB>>), ExtOp(TRUE, <<thG>>), ExtOp(TRUE, <<thU, thH, thA>>),
                 ExtOp(FALSE, <<thA, atR, thB, atB>>), ExtOp(FALSE, <<thU, junk, thA>>)}

\* ---- the heap ----
\* H = [d : sequence of dictionary cells (sets of <<key, value>>), l : sequence of list cells (AttrMode = "inplace")]
\* an object = [ty, co, ov, th, sv, at : index of its cell]
EmptyCo == { <<"equals", Fun2(TvA, TvA, BoolT)>>, <<"implies", Fun2(BoolT, BoolT, BoolT)>>, <<"all", FunT(FunT(TvA, BoolT), BoolT)>> }
EmptyTy == { <<"bool", 0>>, <<"fun", 2>> }
Raise(H, x) == [H |-> H, exc |-> x]
Done(H) == [H |-> H, exc |-> ""]
SetD(H, c, v) == [H EXCEPT !.d[c] = v]
AddTheorem(H, R, n, st, mode) ==      \* Theory.add_theorem
  IF n \in NamesOf(H.d[R.th]) /\ mode = "refuse" THEN Raise(H, "TheoryException")
  ELSE LET H1 == SetD(H, R.th, Upd(H.d[R.th], n, st)) IN
       Done(IF mode = "invalidate" THEN SetD(H1, R.sv, { p \in H1.d[R.sv] : p[1] # n }) ELSE H1)
RunItem(H, R, it, checked) ==
  CASE IKind(it) = "type" ->
         IF TypeMode = "refuse" /\ IName(it) \in NamesOf(H.d[R.ty]) /\ ValOf(H.d[R.ty], IName(it)) # IArity(it) THEN Raise(H, "TheoryException")
         ELSE Done(SetD(H, R.ty, Upd(H.d[R.ty], IName(it), IArity(it))))
    [] IKind(it) = "const" ->
         IF IName(it) \in NamesOf(H.d[R.ov])
         THEN (IF IName(it) \in NamesOf(H.d[R.co]) /\ InstOK(ValOf(H.d[R.co], IName(it)), IType(it)) THEN Done(H) ELSE Raise(H, "TheoryException"))
         ELSE (IF IName(it) \in NamesOf(H.d[R.co]) THEN Raise(H, "TheoryException") ELSE Done(SetD(H, R.co, H.d[R.co] \cup {<<IName(it), IType(it)>>})))
    [] IKind(it) = "over" -> Done(SetD(H, R.ov, Upd(H.d[R.ov], IName(it), TRUE)))
    [] IKind(it) = "thm" ->
         IF checked /\ IPrf(it) = "bad" THEN Raise(H, "CheckProofException")
         ELSE AddTheorem(H, R, IName(it), IStmt(it), IF ExtReadd = "refuse" THEN "refuse" ELSE IF PutMode = "refuse" THEN "stale" ELSE PutMode)
    [] IKind(it) = "attr" ->
         IF AttrMode = "tuple"
         THEN Done(SetD(H, R.at, Upd(H.d[R.at], IName(it), Append(IF IName(it) \in NamesOf(H.d[R.at]) THEN ValOf(H.d[R.at], IName(it)) ELSE <<>>, IAttr(it)))))
         ELSE (IF IName(it) \in NamesOf(H.d[R.at])
               THEN Done([H EXCEPT !.l[ValOf(H.d[R.at], IName(it))] = Append(@, IAttr(it))])
               ELSE Done([d |-> [H.d EXCEPT ![R.at] = @ \cup {<<IName(it), Len(H.l) + 1>>}], l |-> Append(H.l, <<IAttr(it)>>)]))
    [] OTHER -> Raise(H, "AttributeError")
RECURSIVE RunExt(_,_,_,_,_)
RunExt(H, R, items, i, checked) ==
  IF i > Len(items) THEN Done(H)
  ELSE LET r == RunItem(H, R, items[i], checked) IN IF r.exc # "" THEN r ELSE RunExt(r.H, R, items, i + 1, checked)
\* what the public getters answer
Observed(H, R) ==
  LET th == H.d[R.th] IN
  [ty |-> H.d[R.ty], co |-> H.d[R.co], ov |-> NamesOf(H.d[R.ov]), th |-> th,
   at |-> IF AttrMode = "tuple" THEN H.d[R.at] ELSE { <<p[1], H.l[p[2]]>> : p \in H.d[R.at] },
   sv |-> { <<p[1], IF p[1] \in NamesOf(H.d[R.sv]) THEN ValOf(H.d[R.sv], p[1]) ELSE SvarS(p[2])>> : p \in th },
   ck |-> NamesOf(H.d[R.sv]),
   hs |-> { <<"ty", n>> : n \in NamesOf(H.d[R.ty]) } \cup { <<"co", n>> : n \in NamesOf(H.d[R.co]) } \cup { <<"th", n>> : n \in NamesOf(th) },
   mc |-> { <<"x01_m_t", "t", "t" \in NamesOf(th)>>, <<"x01_m_u", "u", "u" \in NamesOf(th)>> }]

VARIABLES fam, heap, obj, obs, ops, hist, done, fails, dv
vars == <<fam, heap, obj, obs, ops, hist, done, fails, dv>>
AllObserved(H, O) == [o \in DOMAIN O |-> Observed(H, O[o])]
Init == /\ fam \in Fams
        /\ heap = [d |-> <<EmptyTy, EmptyCo, {}, {}, {}, {}>>, l |-> <<>>]
        /\ obj = <<[ty |-> 1, co |-> 2, ov |-> 3, th |-> 4, sv |-> 5, at |-> 6]>>
        /\ obs = AllObserved(heap, obj)        \* what every object answers now (a function of heap and obj, kept to evaluate it once)
        /\ ops = 0 /\ hist = <<>> /\ done = FALSE /\ fails = {} /\ dv = FALSE
\* one step of operation op on object o, leading to heap H and object table O: the statement's clauses are evaluated HERE, on the
\* observed values before and after (fails = names of the failing clauses, dv = the mechanism differs from the reference meaning)
Step(op, o, H, O, out, exc, res) ==
  LET before == obs
      after == AllObserved(H, O)
  IN /\ heap' = H /\ obj' = O /\ obs' = after /\ ops' = ops + 1 /\ UNCHANGED <<done, fam>>
     /\ fails' = StepClauses(op, before[o], after[o], after[Len(O)], out, exc, res)
                  \cup UNION { BrokenBy(IF x \in DOMAIN obj THEN before[x] ELSE before[o], after[x]) : x \in DOMAIN O }
                  \cup (IF \A x \in DOMAIN obj : x # o => after[x] = before[x] THEN {} ELSE {"CopyIsolation"})
     /\ dv' = StepDiverges(op, before[o], after[o], after[Len(O)], out)
     /\ hist' = IF Record THEN Append(hist, [op |-> op, tgt |-> o]) ELSE hist
Copy(o) ==
  LET R == obj[o]
      n == Len(heap.d)
      H == IF CopyMode = "shared" THEN heap
           ELSE [heap EXCEPT !.d = @ \o <<heap.d[R.ty], heap.d[R.co], heap.d[R.ov], heap.d[R.th], heap.d[R.sv], heap.d[R.at]>>]
      N == IF CopyMode = "shared" THEN R
           ELSE [ty |-> n + 1, co |-> n + 2, ov |-> n + 3, th |-> n + 4, sv |-> IF CopyMode = "sharecache" THEN R.sv ELSE n + 5, at |-> n + 6]
  IN Len(obj) < MaxObjs /\ Step(CopyOp, o, H, Append(obj, N), "ok", "", DS)
Ext(o, op) == LET r == RunExt(heap, obj[o], op.items, 1, op.checked) IN
              Step(op, o, r.H, obj, IF r.exc = "" THEN "ok" ELSE "raised", r.exc, DS)
PutThm(o, op) == LET r == AddTheorem(heap, obj[o], op.name, op.st, PutMode) IN
              Step(op, o, r.H, obj, IF r.exc = "" THEN "ok" ELSE "raised", r.exc, DS)
Query(o, op) ==
  LET R == obj[o]
      n == op.name
  IN IF n \notin NamesOf(heap.d[R.th]) THEN Step(op, o, heap, obj, "raised", "TheoryException", DS)
     ELSE LET H == IF n \in NamesOf(heap.d[R.sv]) THEN heap ELSE SetD(heap, R.sv, heap.d[R.sv] \cup {<<n, SvarS(ValOf(heap.d[R.th], n))>>})
          IN Step(op, o, H, obj, "ok", "", ValOf(H.d[R.sv], n))
Finish == /\ Record /\ ~done /\ (IF EmitAll THEN ops >= 1 ELSE ops = MaxOps) /\ done' = TRUE
          /\ PrintT(<<"X01T", ToJson([fam |-> fam, steps |-> hist, log |-> IF EmitAll THEN "last" ELSE "all"])>>)
          /\ UNCHANGED <<fam, heap, obj, obs, ops, hist, fails, dv>>
Act == /\ ~done /\ ops < MaxOps
       /\ \E o \in DOMAIN obj : \E op \in Templates(fam) :
            CASE op.k = "copy" -> Copy(o) [] op.k = "ext" -> Ext(o, op) [] op.k = "put" -> PutThm(o, op) [] OTHER -> Query(o, op)
Next == Act \/ Finish
Spec == Init /\ [][Next]_vars

\* ---- the statement (the clauses of X01_Defs, evaluated by Step) ----
\* (a) a step on one object leaves every answer of every other object unchanged; a copy answers like its original
CopyIsolation == "CopyIsolation" \notin fails /\ "CopyEqualsOriginal" \notin fails
\* (b) the schematic form returned for a name is the schematic form of the current theorem of that name, in every object
CacheCoherent == "CacheCoherent" \notin fails
\* (c) an extension list installs its items in order or raises with exactly the prefix installed; existing names are refused
InstalledInOrder == "InstalledInOrder" \notin fails
PrefixOnRaise == "PrefixOnRaise" \notin fails
ReaddRefused == "ReaddRefused" \notin fails /\ "RefusalIsTheoryException" \notin fails
DeterminedByExtensions == "DeterminedByExtensions" \notin fails /\ "MacroFollowsLimit" \notin fails
\* dv: the step is not judged or differs from the reference meaning without failing a clause (a type declared again with another arity)
=============================================================================
