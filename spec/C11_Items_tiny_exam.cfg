SPECIFICATION Spec
CONSTANTS Depth = 1
 N = 2
 Rich = FALSE
INVARIANT ConservativeIfOK
INVARIANT AllExaminable
INVARIANT AddedWellTyped
INVARIANT OnlyOKAdded
POSTCONDITION Post
CHECK_DEADLOCK FALSE
