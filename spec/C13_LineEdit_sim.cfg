SPECIFICATION Spec
CONSTANTS MaxOps = 8
 MaxLines = 18
 MaxPrevs = 3
 Shape = 1
 Record = TRUE
 EmitAll = FALSE
INVARIANT Contiguous
INVARIANT CitationsTrackItems
INVARIANT NoDangling
INVARIANT UidsDistinct
CHECK_DEADLOCK FALSE
