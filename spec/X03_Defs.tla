------------------------------ MODULE X03_Defs ------------------------------
(* Definitions shared by the S specifications X03_Type / X03_Poly and the T specification X03_Trace.                      *)
(*                                                                                                                      *)
(* TYPES (kernel/type.py, kernel/term_ord.py, type part of syntax/printer.py + syntax/parser.py).  Encoding, substitution  *)
(* and the reference matcher are those of lib/HolTerms.tla (TSubst, TMatch, TyVarsOf); added here: composition of          *)
(* instantiations, the lists of variables / sub-types, strip_type / TFun, convert_stvar, the two orders AS CODED (`<=` of    *)
(* Type and fast_compare_typ: the statement only asks for total orders, the coded ones are the reference), match_incr AS     *)
(* CODED (bindings made before a failure stay, argument lists are zipped), the printer's token sequence and a reference      *)
(* parser of the type grammar on token sequences.                                                                         *)
(*                                                                                                                      *)
(* POLYNOMIALS (util/poly.py).  A polynomial is the canonical finite map  monomial -> non-zero rational coefficient, written *)
(* as a SET of <<mono, coeff>>, mono a SET of <<atom, power>> with non-zero rational powers (style of C10_Laws, over lib/Rat). *)
(* The code's value is a sequence  << <<coeff, << <<atom, power>>, ... >> >>, ... >>  (projection of Polynomial.monomials);   *)
(* PAbs maps it to the canonical map, NFSeq says that the sequence IS a normal form.  Rationals are pairs <<p, q>> of lib/Rat; *)
(* ROvf ("too big for TLC's 32-bit integers") makes a value not examinable.                                                *)
EXTENDS HolTerms, Rat

\* ====================================================================================================== types
NoT == <<"tc", "!none", <<>>>>
TC1(c, A) == <<"tc", c, <<A>>>>
TC2(c, A, B) == <<"tc", c, <<A, B>>>>
NatT == <<"tc", "nat", <<>>>>
Leaves == { <<"stv","a">>, <<"stv","b">>, <<"tv","a">>, <<"tv","b">>, NatT }
RECURSIVE TypesUpTo(_)
\* all types of at most d levels (a leaf is one level) over two schematic variables, two type variables, nat, list, fun, prod
TypesUpTo(d) == IF d <= 1 THEN Leaves
                ELSE LET S == TypesUpTo(d - 1) IN
                     S \cup { TC1("list", A) : A \in S } \cup { TC2("fun", A, B) : A \in S, B \in S } \cup { TC2("prod", A, B) : A \in S, B \in S }
RECURSIVE TSize(_), TSizeArgs(_,_)
TSize(T) == IF T[1] = "tc" THEN 1 + TSizeArgs(T[3], 1) ELSE 1
TSizeArgs(Ts, i) == IF i > Len(Ts) THEN 0 ELSE TSize(Ts[i]) + TSizeArgs(Ts, i + 1)
HasSTV(T) == \E v \in TyVarsOf(T) : v[1] = "stv"
InSeq(s, x) == \E i \in 1..Len(s) : s[i] = x
NoDup(s) == \A i \in 1..Len(s) : \A j \in 1..Len(s) : s[i] = s[j] => i = j
SeqSet(s) == { s[i] : i \in 1..Len(s) }
\* association lists as functions (the order of the bindings is not part of the statement)
ALSet(al) == { <<al[i][1], al[i][2]>> : i \in 1..Len(al) }
Functional(al) == \A i \in 1..Len(al) : \A j \in 1..Len(al) : al[i][1] = al[j][1] => i = j
\* s ; r : first s, then r  (T.subst(s).subst(r) = T.subst(Compose(s, r)))
Compose(s, r) == [i \in 1..Len(s) |-> <<s[i][1], TSubst(s[i][2], r)>>] \o SelectSeq(r, LAMBDA p : p[1] \notin Keys(s))
\* get_stvars / get_tvars: variables of one kind, first occurrence, left to right
RECURSIVE VarsAcc(_,_,_), VarsArgs(_,_,_,_)
VarsAcc(T, k, acc) == CASE T[1] = "tc" -> VarsArgs(T[3], 1, k, acc)
                        [] T[1] = k -> IF InSeq(acc, T) THEN acc ELSE Append(acc, T)
                        [] OTHER -> acc
VarsArgs(Ts, i, k, acc) == IF i > Len(Ts) THEN acc ELSE VarsArgs(Ts, i + 1, k, VarsAcc(Ts[i], k, acc))
VarsSeq(T, k) == VarsAcc(T, k, <<>>)
\* get_tsubs: every sub-type, arguments before the type itself, first occurrence
RECURSIVE SubsAcc(_,_), SubsArgs(_,_,_), SubTypes(_)
SubsAcc(T, acc) == LET a == IF T[1] = "tc" THEN SubsArgs(T[3], 1, acc) ELSE acc IN IF InSeq(a, T) THEN a ELSE Append(a, T)
SubsArgs(Ts, i, acc) == IF i > Len(Ts) THEN acc ELSE SubsArgs(Ts, i + 1, SubsAcc(Ts[i], acc))
SubsSeq(T) == SubsAcc(T, <<>>)
SubTypes(T) == {T} \cup (IF T[1] = "tc" THEN UNION { SubTypes(T[3][i]) : i \in 1..Len(T[3]) } ELSE {})
\* strip_type / TFun  (is_fun looks at the name only; the universe uses fun at arity 2)
IsFunN(T) == T[1] = "tc" /\ T[2] = "fun" /\ Len(T[3]) = 2
RECURSIVE Strip(_), MkFun(_,_)
Strip(T) == IF IsFunN(T) THEN LET r == Strip(T[3][2]) IN << <<T[3][1]>> \o r[1], r[2] >> ELSE << <<>>, T >>
MkFun(args, rng) == IF Len(args) = 0 THEN rng ELSE FunT(args[1], MkFun(Tail(args), rng))
\* convert_stvar: type variables become schematic ones; not defined (TypeException) when a schematic variable occurs
RECURSIVE Conv(_)
Conv(T) == CASE T[1] = "tv" -> <<"stv", T[2]>> [] T[1] = "stv" -> T
             [] OTHER -> <<"tc", T[2], [i \in 1..Len(T[3]) |-> Conv(T[3][i])]>>
\* the way back: the instantiation  ?'n := 'n  for the type variables of T
BackInst(T) == LET v == VarsSeq(T, "tv") IN [i \in 1..Len(v) |-> <<v[i][2], v[i]>>]

\* ---- the two orders as coded.  Strings cannot be compared by TLC: the names used are ranked here (Python's order on str)
NameOrder == <<"a", "b", "bool", "c", "d", "fun", "int", "list", "nat", "prod", "real", "set">>
Ranked(n) == \E i \in 1..Len(NameOrder) : NameOrder[i] = n
Rank(n) == CHOOSE i \in 1..Len(NameOrder) : NameOrder[i] = n
KindRank(T) == CASE T[1] = "stv" -> 0 [] T[1] = "tv" -> 1 [] OTHER -> 2
RECURSIVE AllRanked(_)
AllRanked(T) == Ranked(T[2]) /\ (T[1] # "tc" \/ \A i \in 1..Len(T[3]) : AllRanked(T[3][i]))
RECURSIVE LeT(_,_), LeArgs(_,_,_)
\* Type.__le__: kind, then name, then the argument tuples (Python's order on tuples: first difference decides, a prefix is smaller)
LeT(A, B) == IF KindRank(A) # KindRank(B) THEN KindRank(A) < KindRank(B)
             ELSE IF A[2] # B[2] THEN Rank(A[2]) < Rank(B[2])
             ELSE IF A[1] # "tc" THEN TRUE ELSE LeArgs(A[3], B[3], 1)
LeArgs(As, Bs, i) == IF i > Len(As) THEN TRUE ELSE IF i > Len(Bs) THEN FALSE
                     ELSE IF As[i] = Bs[i] THEN LeArgs(As, Bs, i + 1) ELSE LeT(As[i], Bs[i])
LtT(A, B) == LeT(A, B) /\ A # B
Sgn(a, b) == IF a < b THEN 0 - 1 ELSE IF a > b THEN 1 ELSE 0
RECURSIVE CmpT(_,_), CmpArgs(_,_,_)
\* term_ord.fast_compare_typ: size, kind, name, then the arguments (lexicographic, a prefix is smaller)
CmpT(A, B) == IF TSize(A) # TSize(B) THEN Sgn(TSize(A), TSize(B))
              ELSE IF KindRank(A) # KindRank(B) THEN Sgn(KindRank(A), KindRank(B))
              ELSE IF A[2] # B[2] THEN Sgn(Rank(A[2]), Rank(B[2]))
              ELSE IF A[1] # "tc" THEN 0 ELSE CmpArgs(A[3], B[3], 1)
CmpArgs(As, Bs, i) == IF i > Len(As) \/ i > Len(Bs) THEN Sgn(Len(As), Len(Bs))
                      ELSE LET c == CmpT(As[i], Bs[i]) IN IF c # 0 THEN c ELSE CmpArgs(As, Bs, i + 1)

\* ---- match_incr as coded: <<completed, instantiation left behind>>
Min2(a, b) == IF a < b THEN a ELSE b
RECURSIVE MatchP(_,_,_), MatchPArgs(_,_,_,_)
MatchP(P, T, ti) ==
  CASE P[1] = "stv" -> IF P[2] \in Keys(ti) THEN <<Lookup(ti, P[2]) = T, ti>> ELSE <<TRUE, Append(ti, <<P[2], T>>)>>
    [] P[1] = "tv" -> <<P = T, ti>>
    [] OTHER -> IF T[1] # "tc" \/ T[2] # P[2] THEN <<FALSE, ti>> ELSE MatchPArgs(P[3], T[3], 1, ti)
MatchPArgs(Ps, Ts, i, ti) == IF i > Min2(Len(Ps), Len(Ts)) THEN <<TRUE, ti>>
                             ELSE LET r == MatchP(Ps[i], Ts[i], ti) IN IF r[1] THEN MatchPArgs(Ps, Ts, i + 1, r[2]) ELSE r
\* one name, one arity (the statement quantifies over constructors WITH an arity)
RECURSIVE ArityPairs(_)
ArityPairs(T) == IF T[1] # "tc" THEN {} ELSE { <<T[2], Len(T[3])>> } \cup UNION { ArityPairs(T[3][i]) : i \in 1..Len(T[3]) }
ArityCoherent(S) == LET ps == UNION { ArityPairs(T) : T \in S } IN \A p \in ps : \A q \in ps : p[1] = q[1] => p[2] = q[2]
\* the statement about ONE match_incr(P, U, ti): ti before (B), after (A), completed or TypeMatchException (ok), any other exception (odd)
ExtendsOnly(B, A) == ALSet(B) \subseteq ALSet(A)
MatchClauses(P, U, B, A, ok, odd) ==
  LET ref == TMatch(P, U, B) IN
  (IF Functional(A) THEN {} ELSE {"InstFunctional"})
  \cup (IF Functional(B) /\ ~ExtendsOnly(B, A) THEN {"NeverOverwrites"} ELSE {})
  \cup (IF odd THEN {"MatchRaisesOnlyTypeMatchException"} ELSE {})
  \cup (IF ~odd /\ ok /\ Functional(A) /\ TSubst(P, A) # U THEN {"MatchSound"} ELSE {})
  \cup (IF ~odd /\ ~ok /\ Functional(B) /\ ref # ErrAL THEN {"MatchComplete"} ELSE {})
  \cup (IF ~odd /\ ok /\ Functional(B) /\ ref = ErrAL THEN {"MatchRefuses"} ELSE {})

\* ---- the printer's token sequence and the reference parser of the grammar
\*   type := post ("=>" type)?      post := atom NAME*      atom := "'" NAME | "?'" NAME | NAME | "(" type ")" | "(" type ("," type)+ ")" NAME
Punct == {"(", ")", ",", "=>", "'", "?'", "<eof>"}
Paren(s) == <<"(">> \o s \o <<")">>
RECURSIVE Toks(_), TokArgs(_,_), FullToks(_), FullArgs(_,_)
\* minimal brackets: the domain of => and the argument of a postfix constructor are bracketed when they are function types
Toks(T) == CASE T[1] = "stv" -> <<"?'", T[2]>> [] T[1] = "tv" -> <<"'", T[2]>>
             [] OTHER -> IF Len(T[3]) = 0 THEN <<T[2]>>
                         ELSE IF Len(T[3]) = 1 THEN (IF IsFunN(T[3][1]) THEN Paren(Toks(T[3][1])) ELSE Toks(T[3][1])) \o <<T[2]>>
                         ELSE IF IsFunN(T) THEN (IF IsFunN(T[3][1]) THEN Paren(Toks(T[3][1])) ELSE Toks(T[3][1])) \o <<"=>">> \o Toks(T[3][2])
                         ELSE Paren(TokArgs(T[3], 1)) \o <<T[2]>>
TokArgs(Ts, i) == IF i = Len(Ts) THEN Toks(Ts[i]) ELSE Toks(Ts[i]) \o <<",">> \o TokArgs(Ts, i + 1)
\* every compound sub-type bracketed
FullToks(T) == CASE T[1] = "stv" -> <<"?'", T[2]>> [] T[1] = "tv" -> <<"'", T[2]>>
                 [] OTHER -> IF Len(T[3]) = 0 THEN <<T[2]>>
                             ELSE IF Len(T[3]) = 1 THEN Paren(Paren(FullToks(T[3][1])) \o <<T[2]>>)
                             ELSE IF IsFunN(T) THEN Paren(Paren(FullToks(T[3][1])) \o <<"=>">> \o Paren(FullToks(T[3][2])))
                             ELSE Paren(Paren(FullArgs(T[3], 1)) \o <<T[2]>>)
FullArgs(Ts, i) == IF i = Len(Ts) THEN Paren(FullToks(Ts[i])) ELSE Paren(FullToks(Ts[i])) \o <<",">> \o FullArgs(Ts, i + 1)
Tk(ts, i) == IF i <= Len(ts) THEN ts[i] ELSE "<eof>"
IsName(t) == t \notin Punct
PErr == <<Err, 0>>            \* position 0 = no parse
RECURSIVE PType(_,_), PPost(_,_,_), PAtom(_,_), PList(_,_,_)
PAtom(ts, i) ==
  LET t == Tk(ts, i) IN
  CASE t = "'" -> IF IsName(Tk(ts, i + 1)) THEN << <<"tv", ts[i + 1]>>, i + 2 >> ELSE PErr
    [] t = "?'" -> IF IsName(Tk(ts, i + 1)) THEN << <<"stv", ts[i + 1]>>, i + 2 >> ELSE PErr
    [] t = "(" -> LET r == PType(ts, i + 1) IN
                  IF r[2] = 0 THEN PErr
                  ELSE IF Tk(ts, r[2]) = ")" THEN <<r[1], r[2] + 1>>
                  ELSE IF Tk(ts, r[2]) = "," THEN LET a == PList(ts, r[2], <<r[1]>>) IN
                       IF a[2] = 0 \/ ~IsName(Tk(ts, a[2])) THEN PErr ELSE << <<"tc", ts[a[2]], a[1]>>, a[2] + 1 >>
                  ELSE PErr
    [] IsName(t) -> << <<"tc", t, <<>>>>, i + 1 >>
    [] OTHER -> PErr
\* at a ",": the remaining arguments up to and including ")"
PList(ts, i, acc) == IF Tk(ts, i) = ")" THEN <<acc, i + 1>>
                     ELSE IF Tk(ts, i) # "," THEN << <<>>, 0 >>
                     ELSE LET r == PType(ts, i + 1) IN IF r[2] = 0 THEN << <<>>, 0 >> ELSE PList(ts, r[2], Append(acc, r[1]))
PPost(ts, i, acc) == IF IsName(Tk(ts, i)) THEN PPost(ts, i + 1, TC1(ts[i], acc)) ELSE <<acc, i>>
PType(ts, i) == LET a == PAtom(ts, i) IN
                IF a[2] = 0 THEN PErr
                ELSE LET p == PPost(ts, a[2], a[1]) IN
                     IF Tk(ts, p[2]) = "=>" THEN LET r == PType(ts, p[2] + 1) IN IF r[2] = 0 THEN PErr ELSE <<FunT(p[1], r[1]), r[2]>>
                     ELSE p
ParseToks(ts) == LET r == PType(ts, 1) IN IF r[2] = Len(ts) + 1 THEN r[1] ELSE Err

\* ---- the statement about ONE type (what the S specification has as invariants on the reference, the T specification on the code)
\* o: what was observed, same field names in both
TypeClauses(T, o) ==
  (IF MkFun(o.strip[1], o.strip[2]) = T /\ ~IsFunN(o.strip[2]) /\ o.refun = T THEN {} ELSE {"StripInverse"})
  \cup (IF o.stv = VarsSeq(T, "stv") /\ o.tv = VarsSeq(T, "tv") THEN {} ELSE {"VarsExactInOrder"})
  \cup (IF SeqSet(o.tsubs) = SubTypes(T) /\ NoDup(o.tsubs) /\ o.tsubs = SubsSeq(T) THEN {} ELSE {"SubTypesExactInOrder"})
  \cup (IF o.eqcopy /\ o.heqcopy THEN {} ELSE {"EqHashStructural"})
  \cup (IF o.pout = "ok" /\ ParseToks(o.ptoks) = T /\ ParseToks(o.btoks) = T THEN {} ELSE {"PrintedFormDenotesType"})
  \cup (IF ~ArityCoherent({T}) THEN {}          \* the parser checks arities against the theory: one name, one arity
        ELSE (IF o.pout = "ok" /\ o.back = T /\ o.bback = T THEN {} ELSE {"PrintParseIdentity"})
             \cup (IF o.fb = T THEN {} ELSE {"ParseBracketed"}))
  \cup (IF o.conv.out = "ok"            \* where the conversion is defined it is the renaming, and the way back is the identity
        THEN (IF ~HasSTV(T) /\ o.conv.res # Conv(T) THEN {"ConvertDefinedness"} ELSE {}) \cup (IF o.convback # T THEN {"ConvertInverse"} ELSE {})
        ELSE IF HasSTV(T) THEN {} ELSE {"ConvertDefinedness"})
\* the statement about TWO types: equality, hash, both orders
PairClauses(T, U, o) ==
  (IF o.eq = (T = U) /\ o.eq21 = o.eq THEN {} ELSE {"EqStructural"})
  \cup (IF T = U /\ ~o.heq THEN {"EqualHashes"} ELSE {})
  \cup (IF o.le12 \/ o.le21 THEN {} ELSE {"LeTotal"})
  \cup (IF o.le12 /\ o.le21 /\ T # U THEN {"LeAntisymmetric"} ELSE {})
  \cup (IF T = U /\ ~(o.le12 /\ o.le21) THEN {"LeReflexive"} ELSE {})
  \cup (IF o.lt12 = (o.le12 /\ T # U) /\ o.lt21 = (o.le21 /\ T # U) THEN {} ELSE {"LtIsStrictLe"})
  \cup (IF (o.c12 = 0) = (T = U) THEN {} ELSE {"CompareZeroIffEqual"})
  \cup (IF o.c12 = 0 - o.c21 /\ o.c12 \in {0 - 1, 0, 1} THEN {} ELSE {"CompareAntisymmetric"})
\* three types: transitivity (le / c are the six observed answers 12 23 13 21 32 31)
Neg(c) == c <= 0
TripleClauses(o) ==
  (IF (o.le[1] /\ o.le[2] => o.le[3]) /\ (o.le[5] /\ o.le[4] => o.le[6]) THEN {} ELSE {"LeTransitive"})
  \cup (IF (Neg(o.c[1]) /\ Neg(o.c[2]) => Neg(o.c[3])) /\ (Neg(o.c[5]) /\ Neg(o.c[4]) => Neg(o.c[6])) THEN {} ELSE {"CompareTransitive"})

\* ====================================================================================================== polynomials
RZero == <<0, 1>>
ROne == <<1, 1>>
PConst(c) == IF c = RZero THEN {} ELSE { <<{}, c>> }
PAtom1(a, pw) == { << { <<a, pw>> }, ROne >> }
Monos(p) == { t[1] : t \in p }
Coef(p, m) == IF m \in Monos(p) THEN (CHOOSE t \in p : t[1] = m)[2] ELSE RZero
NonZero(S) == { t \in S : t[2] # RZero }
PHasOvf(p) == \E t \in p : RIsOvf(t[2]) \/ \E f \in t[1] : RIsOvf(f[2])
PAdd(p, q) == NonZero({ <<m, RAdd(Coef(p, m), Coef(q, m))>> : m \in Monos(p) \cup Monos(q) })
PScale(p, c) == NonZero({ <<t[1], RMul(c, t[2])>> : t \in p })
PNeg(p) == PScale(p, <<0 - 1, 1>>)
PSub(p, q) == PAdd(p, PNeg(q))
MAtoms(m) == { f[1] : f \in m }
MExp(m, a) == IF a \in MAtoms(m) THEN (CHOOSE f \in m : f[1] = a)[2] ELSE RZero
MMul(m1, m2) == { f \in { <<a, RAdd(MExp(m1, a), MExp(m2, a))>> : a \in MAtoms(m1) \cup MAtoms(m2) } : f[2] # RZero }
RECURSIVE SumC(_)
SumC(S) == IF S = {} THEN RZero ELSE LET x == CHOOSE y \in S : TRUE IN RAdd(x[4], SumC(S \ {x}))
\* every pair of monomials contributes  <<product monomial, left, right, product of the coefficients>>
PMul(p, q) == LET prods == { <<MMul(a[1], b[1]), a[1], b[1], RMul(a[2], b[2])>> : a \in p, b \in q } IN
              NonZero({ <<m, SumC({ x \in prods : x[1] = m })>> : m \in { x[1] : x \in prods } })
RECURSIVE PPow(_,_)
PPow(p, k) == IF k = 0 THEN PConst(ROne) ELSE IF k = 1 THEN p ELSE PMul(PPow(p, k - 1), p)
\* normal form of the abstract value
PNF(p) == /\ \A t \in p : t[2] # RZero /\ (RIsOvf(t[2]) \/ RIsNorm(t[2])) /\ \A f \in t[1] : f[2] # RZero
          /\ \A t \in p : \A u \in p : t[1] = u[1] => t = u
          /\ \A t \in p : \A f \in t[1] : \A g \in t[1] : f[1] = g[1] => f = g
\* ---- evaluation at a point (a function atom -> positive rational); powers n/1 and n/2
RSqrtQ(x) == IF RIsOvf(x) \/ x[1] < 0 THEN ROvf
             ELSE IF RIsSquare(x[1]) /\ RIsSquare(x[2]) THEN <<RISqrt(x[1]), RISqrt(x[2])>> ELSE ROvf
RPowZ(x, n) == IF n >= 0 THEN RPow(x, n) ELSE IF RIsOvf(x) \/ x[1] = 0 THEN ROvf ELSE RPow(RInv(x), 0 - n)
RPowQ(x, pw) == IF RIsOvf(pw) THEN ROvf ELSE IF pw[2] = 1 THEN RPowZ(x, pw[1]) ELSE IF pw[2] = 2 THEN RPowZ(RSqrtQ(x), pw[1]) ELSE ROvf
RECURSIVE EvalM(_,_), EvalP(_,_)
EvalM(m, pt) == IF m = {} THEN ROne ELSE LET f == CHOOSE g \in m : TRUE IN
                IF f[1] \in DOMAIN pt THEN RMul(RPowQ(pt[f[1]], f[2]), EvalM(m \ {f}, pt)) ELSE ROvf
EvalP(p, pt) == IF p = {} THEN RZero ELSE LET t == CHOOSE u \in p : TRUE IN RAdd(RMul(t[2], EvalM(t[1], pt)), EvalP(p \ {t}, pt))
Pt(a, b) == [x |-> a, y |-> b, z |-> <<9, 4>>]
Points == { Pt(<<4, 1>>, <<1, 9>>), Pt(<<1, 4>>, <<4, 1>>), Pt(<<9, 1>>, <<1, 1>>), Pt(<<1, 1>>, <<25, 4>>) }

\* ---- the code's value: a sequence of <<coeff, factors>>
FacSet(fs) == { <<fs[i][1], fs[i][2]>> : i \in 1..Len(fs) }
PAbs(s) == { <<FacSet(s[i][2]), s[i][1]>> : i \in 1..Len(s) }
NFSeq(s) == /\ \A i \in 1..Len(s) : /\ s[i][1] # RZero /\ RIsNorm(s[i][1])
                                    /\ \A k \in 1..Len(s[i][2]) : s[i][2][k][2] # RZero /\ RIsNorm(s[i][2][k][2])
                                    /\ \A k \in 1..Len(s[i][2]) : \A n \in 1..Len(s[i][2]) : s[i][2][k][1] = s[i][2][n][1] => k = n
            /\ \A i \in 1..Len(s) : \A j \in 1..Len(s) : FacSet(s[i][2]) = FacSet(s[j][2]) => i = j
\* the module's own order (compare_fst): fewer factors first, then the first differing factor: base, then power; reference only
AtomRank == [x |-> 1, y |-> 2, z |-> 3]
FacCmp(f, g) == IF f[1] # g[1] THEN Sgn(AtomRank[f[1]], AtomRank[g[1]]) ELSE RCmp(f[2], g[2])
RECURSIVE FacsCmp(_,_,_)
FacsCmp(fs, gs, i) == IF i > Len(fs) THEN 0 ELSE IF fs[i] = gs[i] THEN FacsCmp(fs, gs, i + 1) ELSE FacCmp(fs[i], gs[i])
MonoCmp(fs, gs) == IF Len(fs) # Len(gs) THEN Sgn(Len(fs), Len(gs)) ELSE FacsCmp(fs, gs, 1)
KnownAtoms(s) == \A i \in 1..Len(s) : \A k \in 1..Len(s[i][2]) : s[i][2][k][1] \in DOMAIN AtomRank
SortedSeq(s) == /\ \A i \in 1..Len(s) : \A k \in 1..(Len(s[i][2]) - 1) : AtomRank[s[i][2][k][1]] < AtomRank[s[i][2][k + 1][1]]
                /\ \A i \in 1..(Len(s) - 1) : MonoCmp(s[i][2], s[i + 1][2]) = 0 - 1
\* the canonical sequence of an abstract value (insertion into a sorted sequence), used to hand values to the code
RECURSIVE FacSeq(_), PSeq(_)
FacSeq(m) == IF m = {} THEN <<>> ELSE LET f == CHOOSE g \in m : \A h \in m : AtomRank[g[1]] <= AtomRank[h[1]] IN <<f>> \o FacSeq(m \ {f})
PSeq(p) == IF p = {} THEN <<>>
           ELSE LET t == CHOOSE u \in p : \A w \in p : MonoCmp(FacSeq(u[1]), FacSeq(w[1])) <= 0 IN << <<t[2], FacSeq(t[1])>> >> \o PSeq(p \ {t})

\* ---- the ring laws: name, left and right side as the REFERENCE computes them (c: the scalar of the law about scale)
LawNames == <<"add_comm", "add_assoc", "mul_comm", "mul_assoc", "distrib", "add_zero", "mul_one", "mul_zero", "add_neg", "sub_is_add_neg",
              "neg_is_scale", "neg_neg", "pow_zero", "pow_one", "pow_two", "pow_three", "scale_is_mul", "scale_scale", "scale_add">>
LawSides(nm, p, q, r, c) ==
  CASE nm = "add_comm" -> <<PAdd(p, q), PAdd(q, p)>>
    [] nm = "add_assoc" -> <<PAdd(PAdd(p, q), r), PAdd(p, PAdd(q, r))>>
    [] nm = "mul_comm" -> <<PMul(p, q), PMul(q, p)>>
    [] nm = "mul_assoc" -> <<PMul(PMul(p, q), r), PMul(p, PMul(q, r))>>
    [] nm = "distrib" -> <<PMul(p, PAdd(q, r)), PAdd(PMul(p, q), PMul(p, r))>>
    [] nm = "add_zero" -> <<PAdd(p, {}), p>>
    [] nm = "mul_one" -> <<PMul(p, PConst(ROne)), p>>
    [] nm = "mul_zero" -> <<PMul(p, {}), {}>>
    [] nm = "add_neg" -> <<PAdd(p, PNeg(p)), {}>>
    [] nm = "sub_is_add_neg" -> <<PSub(p, q), PAdd(p, PNeg(q))>>
    [] nm = "neg_is_scale" -> <<PNeg(p), PScale(p, <<0 - 1, 1>>)>>
    [] nm = "neg_neg" -> <<PNeg(PNeg(p)), p>>
    [] nm = "pow_zero" -> <<PPow(p, 0), PConst(ROne)>>
    [] nm = "pow_one" -> <<PPow(p, 1), p>>
    [] nm = "pow_two" -> <<PPow(p, 2), PMul(p, p)>>
    [] nm = "pow_three" -> <<PPow(p, 3), PMul(p, PMul(p, p))>>
    [] nm = "scale_is_mul" -> <<PScale(p, c), PMul(PConst(c), p)>>
    [] nm = "scale_scale" -> <<PScale(PScale(p, c), c), PScale(p, RMul(c, c))>>
    [] nm = "scale_add" -> <<PScale(PAdd(p, q), c), PAdd(PScale(p, c), PScale(q, c))>>
    [] OTHER -> <<{}, {}>>
KnownLaw(nm) == \E i \in 1..Len(LawNames) : LawNames[i] = nm
\* the predicates answer according to the normal form
PredClauses(p, o) ==
  LET isz == p = {}
      isc == Cardinality(p) = 1 /\ \E t \in p : t[1] = {}
  IN (IF o.izc = isz /\ o.inzc = isc /\ o.ic = (isz \/ isc) THEN {} ELSE {"PredicatesFollowNormalForm"})
     \cup (IF isz \/ isc THEN (IF o.gc.out = "ok" /\ o.gc.val = Coef(p, {}) THEN {} ELSE {"GetConstant"})
           ELSE (IF o.gc.out = "ok" THEN {"GetConstant"} ELSE {}))
=============================================================================
