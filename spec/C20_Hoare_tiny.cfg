SPECIFICATION Spec
CONSTANTS NAsg = 3
 NGrd = 2
 NAnn = 2
 NInA = 2
 NInG = 1
 NPre = 1
 NPost = 2
 NNatPost = 1
 Deep = FALSE
INVARIANT Sound
INVARIANT ExecAgrees
INVARIANT AllGuarded
CHECK_DEADLOCK FALSE
