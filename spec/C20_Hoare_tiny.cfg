SPECIFICATION Spec
CONSTANTS NAsg = 3
 NGrd = 2
 NAnn = 2
 NPre = 2
 NPost = 4
 Deep = FALSE
INVARIANT Sound
INVARIANT ExecAgrees
INVARIANT AllGuarded
CHECK_DEADLOCK FALSE
