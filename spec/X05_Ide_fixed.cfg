SPECIFICATION Spec
CONSTANTS
  MaxOps = 0
  MaxLevel = 5
  KeepLast = TRUE
  Record = FALSE
  EmitBadOnly = FALSE
  Interferer = "ub"
  FirstOpens = FALSE
  SwOrderUser = TRUE
  SwLoadUser = TRUE
  SwFreshMeta = TRUE
  SwTotal = TRUE
  SwApplyReload = TRUE
  SwCacheWorld = TRUE
  SwCreateAtomic = TRUE
  SwFailKeeps = TRUE
INVARIANT Totality
INVARIANT Persistence
INVARIANT SaveExact
INVARIANT RemoveExact
INVARIANT ReadOnly
INVARIANT Faithful
INVARIANT FailedStepKeeps
INVARIANT Isolation
CHECK_DEADLOCK FALSE
