SPECIFICATION Spec
CONSTANTS NAsg = 7
 NGrd = 5
 NAnn = 5
 NInA = 3
 NInG = 2
 NPre = 1
 NPost = 6
 NNatPost = 4
 Deep = TRUE
INVARIANT Sound
INVARIANT ExecAgrees
INVARIANT AllGuarded
CHECK_DEADLOCK FALSE
