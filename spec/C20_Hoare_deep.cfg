SPECIFICATION Spec
CONSTANTS NAsg = 7
 NGrd = 5
 NAnn = 7
 NPre = 4
 NPost = 7
 Deep = TRUE
INVARIANT Sound
INVARIANT ExecAgrees
INVARIANT AllGuarded
CHECK_DEADLOCK FALSE
