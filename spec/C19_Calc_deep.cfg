SPECIFICATION Spec
CONSTANTS Coef <- C3
 Pairs <- P6
 SumPairs <- SP3
 Bnd <- B2
 MaxD = 3
 MaxSteps = 3
 SubA <- A3
 LimC <- L2
 SubB <- S2
INVARIANT SameValueInv
INVARIANT SameValueOp
INVARIANT TwoEvaluators
INVARIANT SimplifyIdempotent
POSTCONDITION Emit
CHECK_DEADLOCK FALSE
