SPECIFICATION Spec
CONSTANTS MaxMono = 0
 CoefSet <- Coefs3
 MaxOps = 3
 MaxSize = 9
 InitP <- ZeroOnly
 InitQ <- ZeroOnly
 InitR <- ZeroOnly
 Gens <- GensSmall
 Scalars <- ScalarsSmall
 Kinds <- KindsAll
 Record = FALSE
 EmitAll = FALSE
INVARIANT NormalForm
INVARIANT EvalCommutes
INVARIANT EvalDefined
INVARIANT RingLaws
INVARIANT SeqDenotes
CHECK_DEADLOCK FALSE
