------------------------------ MODULE C16_LinArith ------------------------------
(* S-specification for C16: what "satisfiable", "contradiction" and a "witness" ARE for systems of *)
(* linear constraints, and a REFERENCE elimination procedure whose steps are model-checked         *)
(* against brute force.                                                                            *)
(*   input space : every multiset of 1..2 factoids  0 <= a1*x1 + a2*x2 + c  with a1, a2 \in Coef2,  *)
(*                 c \in Const2, and (MaxC = 3) every multiset of 3 factoids with a1 \in CoefA3,     *)
(*                 a2 \in CoefB3, c \in Const3, is reached from the single initial state by AddRow:  *)
(*                 zero rows, duplicates, equalities as paired inequalities, unbounded directions,  *)
(*                 inexact (dark / grey shadow) eliminations are all included; plus every 3-row     *)
(*                 multiset over RowsR (CoefR, ConstR) in which one linear form is bounded twice    *)
(*                 with different constants.  For the replay these are also written as ORDERED      *)
(*                 systems (RepeatSeqs: all 6 orders of {weak bound, tight bound, other row}):      *)
(*                 the order of assertion is a history for the simplex code, not for the meaning.   *)
(*   state       : orig (the system), cur (the factoids after eliminating the variables in elim),   *)
(*                 kind ("rat" Fourier-Motzkin | "real" real shadow + GCD tightening | "dark"       *)
(*                 dark shadow + tightening), exact (every elimination so far met Pugh's            *)
(*                 exactness condition)                                                             *)
(*   action      : Eliminate(i) -- one reference elimination step, any order of variables           *)
(*   properties (all judged by brute force over boxes, exact integer arithmetic):                   *)
(*     RealSound     every integer point of [-BU,BU]^2 satisfying orig satisfies every derived      *)
(*                   real-shadow factoid (incl. every GCD tightening)                               *)
(*     ContrSound    a false factoid (0 <= c, c < 0) in the real shadow => no integer solution in B *)
(*     DarkSound     the dark shadow has an integer point in [-BS,BS]^2 => orig has one in [-B,B]^2 *)
(*     ExactComplete after exact eliminations only: real shadow integer-satisfiable => orig is      *)
(*     FMExact       after eliminating everything with plain Fourier-Motzkin: no false factoid      *)
(*                   <=> orig has a rational solution on the grid { k/d : d \in Dens, |k| <= K }     *)
(*                   -- this is the model-checked GRID-COMPLETENESS statement used by the T spec     *)
(*     BoxStable     orig has an integer solution in [-B,B]^2 => it has one in [-BS0,BS0]^2          *)
(*                   (evidence, not a proof, that B is complete for the class: BS0 < B)              *)
(* What is model-checked is exactly the above on the enumerated class; soundness of the T-spec       *)
(* verdicts never depends on box completeness (a point found in a box is a genuine solution).        *)
(* The universe is written as vectors (EmitSpec, POSTCONDITION Emit) and replayed into the real code.*)
EXTENDS C16_LinCore, TLC, Json, IOUtils, SequencesExt

CONSTANTS Coef2, Const2, MinC, MaxC, CoefA3, CoefB3, Const3, CoefR, ConstR, B, BU, BS, BS0, K
\* value sets for the cfg files (a cfg cannot contain negative literals)
R22 == (-2)..2
R33 == (-3)..3
R11 == (-1)..1
S202 == {-2, 0, 2}
S11 == {-1, 1}
Z0 == {0}
NV == 2
Dens == {1, 2, 3, 4, 5, 6, 8}          \* all |2x2 determinants| with entries in -2..2

Rows2 == { <<a, b, c>> : a \in Coef2, b \in Coef2, c \in Const2 }
Rows3 == { <<a, b, c>> : a \in CoefA3, b \in CoefB3, c \in Const3 }
RowLeq(r, s) == r[1] < s[1] \/ (r[1] = s[1] /\ (r[2] < s[2] \/ (r[2] = s[2] /\ r[3] <= s[3])))
\* the "repeated left-hand side" class: 3-row systems over RowsR in which one linear form occurs twice with different
\* constants (two bounds on the same form: the solver shares one slack variable between them)
RowsR == { <<a, b, c>> : a \in CoefR, b \in CoefR, c \in ConstR }
HasRepeat(s) == \E i \in 1..Len(s) : \E j \in 1..Len(s) :
                  i < j /\ s[i][1] = s[j][1] /\ s[i][2] = s[j][2] /\ s[i][3] # s[j][3] /\ (s[i][1] # 0 \/ s[i][2] # 0)
ASSUME Rows3 \subseteq Rows2 /\ RowsR \subseteq Rows2      \* AddRow builds 3-row systems by extending 2-row systems
SortedTriples(R) == { q \in R \X R \X R : RowLeq(q[1], q[2]) /\ RowLeq(q[2], q[3]) }
Systems ==
  { <<r>> : r \in Rows2 }
  \cup { <<p[1], p[2]>> : p \in { q \in Rows2 \X Rows2 : RowLeq(q[1], q[2]) } }
  \cup (IF MaxC >= 3 THEN { <<p[1], p[2], p[3]>> : p \in SortedTriples(Rows3) }
                           \cup { <<p[1], p[2], p[3]>> : p \in { q \in SortedTriples(RowsR) : HasRepeat(q) } }
        ELSE {})
\* ORDERED systems for the replay (assertion order is a history for the simplex code): every ordering of
\* { f.x >= -c1, f.x >= -c2, g.x >= -c3 } with c1 # c2 and g another form -- weak-then-tight, tight-then-weak, with the
\* third row before, between and after.  Their multisets are systems of the class above (RepeatInClass).
FormsR == { <<a, b>> : a \in CoefR, b \in CoefR } \ { <<0, 0>> }
RepeatSeqs ==
  IF MaxC < 3 THEN {} ELSE
  UNION { UNION { UNION { UNION { UNION {
    LET F1 == <<f[1], f[2], c1>>  F2 == <<f[1], f[2], c2>>  G == <<g[1], g[2], c3>> IN
    IF c1 = c2 THEN {} ELSE { <<F1, F2, G>>, <<F1, G, F2>>, <<G, F1, F2>> }
    : c3 \in ConstR } : g \in FormsR \ {f} } : c2 \in ConstR } : c1 \in ConstR } : f \in FormsR }
Sort3(s) == CHOOSE p \in { <<s[1], s[2], s[3]>>, <<s[1], s[3], s[2]>>, <<s[2], s[1], s[3]>>,
                            <<s[2], s[3], s[1]>>, <<s[3], s[1], s[2]>>, <<s[3], s[2], s[1]>> } :
                 RowLeq(p[1], p[2]) /\ RowLeq(p[2], p[3])
RepeatInClass == \A s \in RepeatSeqs : Sort3(s) \in Systems

VARIABLES orig, cur, elim, kind, exact
vars == <<orig, cur, elim, kind, exact>>

\* One initial state (the empty system); AddRow builds every multiset of rows in non-decreasing order, Start
\* fixes the kind of elimination.  Every system of the class is the orig of exactly 3 started states.
Init == orig = <<>> /\ kind = "none" /\ cur = {} /\ elim = {} /\ exact = TRUE
AddRow == /\ kind = "none" /\ Len(orig) < MaxC
          /\ LET cand == IF Len(orig) < 2 THEN Rows2
                         ELSE (IF \A f \in RangeOf(orig) : f \in Rows3 THEN Rows3 ELSE {})
                              \cup (IF \A f \in RangeOf(orig) : f \in RowsR
                                    THEN { r \in RowsR : HasRepeat(Append(orig, r)) } ELSE {}) IN
             \E r \in cand : /\ (Len(orig) > 0 => RowLeq(orig[Len(orig)], r))
                             /\ orig' = Append(orig, r)
          /\ UNCHANGED <<cur, elim, kind, exact>>
Start == /\ kind = "none" /\ Len(orig) >= MinC
         /\ kind' \in {"rat", "real", "dark"}
         /\ cur' = (IF kind' = "rat" THEN RangeOf(orig) ELSE { Tighten(f) : f \in RangeOf(orig) })
         /\ UNCHANGED <<orig, elim, exact>>
Eliminate(i) == /\ kind # "none" /\ i \notin elim
                /\ cur' = Shadow(kind, cur, i)
                /\ elim' = elim \cup {i}
                /\ exact' = (exact /\ (kind # "real" \/ ExactVar(cur, i)))
                /\ UNCHANGED <<orig, kind>>
Next == AddRow \/ Start \/ \E i \in 1..NV : Eliminate(i)
Spec == Init /\ [][Next]_vars

O == RangeOf(orig)
HasFalse(S) == \E f \in S : f[NV + 1] < 0 /\ f[1] = 0 /\ f[2] = 0
\* two-variable specialisations of C16_LinCore's FAllHold / FIntSat / FRatSat (same meaning, faster in TLC)
AllH(S, a, b, d) == FAllHold2(S, a, b, d)
Sat2(S, Bx) == \E a \in (-Bx)..Bx : \E b \in (-Bx)..Bx : AllH(S, a, b, 1)
RatSat2(S) == \E d \in Dens : \E a \in (-K)..K : \E b \in (-K)..K : AllH(S, a, b, d)
TypeOK == /\ \A f \in cur : Len(f) = NV + 1 /\ \A i \in elim : f[i] = 0
RealSound == kind = "real" =>
               \A a \in (-BU)..BU : \A b \in (-BU)..BU : AllH(O, a, b, 1) => AllH(cur, a, b, 1)
ContrSound == kind = "real" /\ HasFalse(cur) => ~Sat2(O, B)
DarkSound == kind = "dark" => (Sat2(cur, BS) => Sat2(O, B))
ExactComplete == kind = "real" /\ exact => (Sat2(cur, BS) => Sat2(O, B))
FMExact == kind = "rat" /\ elim = 1..NV => (~HasFalse(cur) <=> RatSat2(O))
BoxStable == kind = "rat" /\ elim = {} => (Sat2(O, B) => Sat2(O, BS0))
\* the specialisations agree with the generic operators the T spec uses (checked on the initial picks)
SpecialisationOK == kind = "none" /\ Len(orig) = 2 /\ orig[1][3] = 1 =>
                      /\ Sat2(O, 4) = FIntSat(O, NV, 4)
                      /\ Sat2(O, 4) = IntSat({ FRow(f) : f \in O }, NV, 4)
                      /\ Sat2(O, 4) = IntSatG({ FRow(f) : f \in O }, NV, 4)
                      /\ LET rs == { FRow(f) : f \in O }
                             fl == { CanonRow([r EXCEPT ![3] = 2, ![1] = -r[1], ![2] = -r[2], ![4] = -r[4]]) : r \in rs } IN
                         /\ RatSat(rs, NV, {1, 2, 3}, 3) = RatSatG(rs, NV, {1, 2, 3}, 3)
                         /\ RatSat(rs, NV, {1, 2, 3}, 3) = (\E d \in {1, 2, 3} : \E a \in (-3)..3 : \E b \in (-3)..3 : AllH(O, a, b, d))
                         /\ fl = rs         \* a.x >= b  written  -a.x <= -b  has the same canonical row

\* every started system belongs to the emitted class, and (post-condition of the exploring run) there are at least
\* as many states as the class needs (one "none" state and three started states per system)
OrigInClass == kind # "none" => orig \in Systems
Covered == MinC > 1 \/ TLCGet("distinct") >= 4 * Cardinality(Systems)
\* the class itself, written as vectors by a run of EmitSpec (same module, same constants, no exploration) so that the
\* replay into the code can proceed while TLC explores Spec
EmitSpec == Init /\ [][FALSE]_vars
Emit == LET ss == SetToSeq(Systems)  ps == SetToSeq(RepeatSeqs) IN
        /\ TLCGet("distinct") >= 1
        /\ RepeatInClass
        /\ ndJsonSerialize(IOEnv.VECTOR_FILE, [i \in 1..(Len(ss) + Len(ps)) |->
                                IF i <= Len(ss) THEN [m |-> ss[i], fam |-> "v"] ELSE [m |-> ps[i - Len(ss)], fam |-> "p"]])
        /\ PrintT(<<"systems", Len(ss), "ordered repeated-form systems", Len(ps)>>)
=============================================================================
