---------------------------- MODULE C13_EditorTrace ----------------------------
(* T-specification for C13.  Events (harness/drivers/c13.py):                                 *)
(*  kind "edit": the projected ProofState after an editing operation that completed:            *)
(*     lines   = <<  <<id, rule, prevs, th>> ... >>  in textual (pre-)order; th = interned      *)
(*               sequent, -1 = none;  goal = the originally stated sequent; sorries = stated    *)
(*               sequents of the open gaps (sorted); recheck = <<ok, gaps reported, final>> of a  *)
(*               FULL re-check; nogaps = <<applicable, ok, final>> of a re-check with gaps        *)
(*               disallowed; expimp = <<ok, exported lines, re-exported lines after parse_proof,  *)
(*               projected lines of the re-imported state, its re-check>>; copy = <<applicable,    *)
(*               projection of the ORIGINAL before, after the operation on the copy>>            *)
(*               copy[2], copy[3] = [lines, exp_ok, exp, exp_err]: the lines AND the exported form (printed        *)
(*               arguments) of the original                                                      *)
(*  kind "cache": ProofCache.states before / after insert_step(index), and an independent replay *)
(*  kind "lineedit": one step of a behaviour of spec/C13_LineEdit.tla performed on a real ProofState through          *)
(*               add_line_before / remove_line / replace_id / set_line: op = <<name, id, id>>, before / after = the    *)
(*               projected real proof << <<id, uid, prevs>> ... >>, expect = the spec's proof after the step, raised,   *)
(*               copy = <<done on a copy, the original before, after>>.  Clauses = the definitions of C13_Lines, the   *)
(*               same ones that are invariants of the S spec; code /= spec without a failing clause is a divergence    *)
EXTENDS Naturals, Sequences, FiniteSets, TLC, TraceLib, C13_Lines
Id(ln) == ln[1]
Prefix(s, n) == SubSeq(s, 1, n)
\* kernel/proof.py ItemID.can_depend_on
CanDependOn(self, other) == LET k == Len(other) IN
   k >= 1 /\ k <= Len(self) /\ Prefix(other, k - 1) = Prefix(self, k - 1) /\ other[k] < self[k]
\* pre-order contiguous numbering: first line is <<0>>; each next line is the first child of the previous one
\* or the next sibling of the previous line or of one of its ancestors
NextOK(a, b) == \/ b = Append(a, 0)
                \/ \E j \in 1..Len(a) : b = Append(Prefix(a, j - 1), a[j] + 1)
Contiguous(L) == Len(L) > 0 /\ Id(L[1]) = <<0>> /\ \A i \in 1..(Len(L) - 1) : NextOK(Id(L[i]), Id(L[i + 1]))
Ids(L) == { Id(L[i]) : i \in 1..Len(L) }
Citations(L) == \A i \in 1..Len(L) : \A k \in 1..Len(L[i][3]) :
                   L[i][3][k] \in Ids(L) /\ CanDependOn(Id(L[i]), L[i][3][k])
TopLast(L) == LET T == { i \in 1..Len(L) : Len(Id(L[i])) = 1 } IN L[CHOOSE i \in T : \A j \in T : j <= i]
EditClauses(e) ==
  (IF Contiguous(e.lines) THEN {} ELSE {"Contiguous"})
  \cup (IF Citations(e.lines) THEN {} ELSE {"CitationsVisibleEarlier"})
  \cup (IF Len(e.lines) > 0 /\ TopLast(e.lines)[4] = e.goal THEN {} ELSE {"LastLineIsGoal"})
  \cup (IF e.recheck[1] THEN {} ELSE {"RecheckSucceeds"})
  \cup (IF e.recheck[1] /\ e.recheck[2] # e.sorries THEN {"GapsAreExactlySorries"} ELSE {})
  \cup (IF e.recheck[1] /\ e.recheck[3] # e.goal THEN {"GoalPreserved"} ELSE {})
  \cup (IF e.nogaps[1] /\ ~(e.nogaps[2] /\ e.nogaps[3] = e.goal) THEN {"NoGapsAccepted"} ELSE {})
  \cup (IF e.recheck[1] /\ ~(e.expimp[1] /\ e.expimp[2] = e.expimp[3] /\ e.expimp[4] = e.lines /\ e.expimp[5] = e.recheck)
        THEN {"ExportImport"} ELSE {})
  \cup (IF e.copy[1] /\ e.copy[2] # e.copy[3] THEN {"CopyIsolated"} ELSE {})
CacheClauses(e) ==
  (IF \A i \in 1..(e.index + 1) : i <= Len(e.after) /\ i <= Len(e.before) /\ e.after[i] = e.before[i] THEN {} ELSE {"HistoryIntact"})
  \cup (IF e.after = e.expect THEN {} ELSE {"HistoryIsReplay"})
LineEditClauses(e) ==
  IF e.raised THEN {} ELSE
  (IF LContiguous(e.after) THEN {} ELSE {"Contiguous"})
  \cup (IF TrackOK(e.before, e.after, e.op) THEN {} ELSE {"CitationsTrackItems"})
  \cup (IF NoDanglingOK(e.before, e.after, e.op) THEN {} ELSE {"NoDangling"})
  \cup (IF e.copy[1] /\ e.copy[2] # e.copy[3] THEN {"CopyIsolated"} ELSE {})
ClausesOf(e) == CASE e.kind = "edit" -> EditClauses(e) [] e.kind = "cache" -> CacheClauses(e) [] e.kind = "lineedit" -> LineEditClauses(e) [] OTHER -> {}
Nontrivial(e) == e.kind \in {"edit", "cache"} \/ (e.kind = "lineedit" /\ ~e.raised)
\* the real line edit raised on a step the specification allows, or produced another proof than the specification's
Diverges(e) == e.kind = "lineedit" /\ (e.raised \/ e.after # e.expect)
TNext == LET e == Trace[l] IN TStep(e.tid, ClausesOf(e), Nontrivial(e), Diverges(e))
TSpec == TInit /\ [][TNext]_l
=============================================================================
