---------------------------- MODULE C08_InferAlgo ----------------------------
(* The type inference of syntax/infertype.py AS CODED, as TLA+ operators over the      *)
(* term / type encoding of lib/HolTerms.tla.  No variables, no constants: the module   *)
(* is shared by the I specification (C08_InferImpl, a state machine over unify calls), *)
(* the S specification (C08_Infer, which checks the model against the contract on the  *)
(* whole generated input space) and the trace specification (C08_InferTrace, where it  *)
(* is the model-level explanation of foreign exceptions / timeouts).                   *)
(*                                                                                     *)
(*   skeleton : a term whose missing types are NoneT                                   *)
(*   internal type variable number k : <<"stv", "_t<k>">>                              *)
(*   state    : [uf, reach, ic, isc, st, err]                                          *)
(*       uf[k+1]    representative / binding of internal variable k  (dict uf)         *)
(*       reach[k+1] set of internal variables recorded as reachable  (dict reach)      *)
(*       ic, isc    incr_ctxt / incr_sctxt (association lists name -> type)            *)
(*       st         "ok" | "fail" (TypeInferenceException, kind in err) | "cyc" (a      *)
(*                  binding that closes a cycle has been ACCEPTED: from there on unify  *)
(*                  and the final substitution loop need not terminate)                 *)
(*   opt      : [exact, avc]  parameters that make the model mirror the code present    *)
(*       exact      union()'s occurs check follows the current bindings (exact          *)
(*                  reachability); FALSE = the code as found: cached reach sets, which  *)
(*                  are extended only for the entries redirected by a union             *)
(*       avc        see VarStep                                                         *)
EXTENDS HolTerms

NoneT == <<"none">>
MaxIv == 255
IvNameSeq == [k \in 1..(MaxIv + 1) |-> "_t" \o ToString(k - 1)]
IvNames == { IvNameSeq[k] : k \in 1..(MaxIv + 1) }
IvIdxMap == [n \in IvNames |-> CHOOSE k \in 0..MaxIv : IvNameSeq[k + 1] = n]
Iv(k) == <<"stv", IvNameSeq[k + 1]>>
IsIv(T) == T[1] = "stv" /\ T[2] \in IvNames          \* is_internal_type
IvIdx(T) == IvIdxMap[T[2]]
ListT(A) == <<"tc", "list", <<A>>>>

RECURSIVE IvsIn(_), STVarSeqArgs(_,_,_)
IvsIn(T) == CASE T[1] = "stv" -> IF IsIv(T) THEN {IvIdx(T)} ELSE {}
              [] T[1] = "tc" -> UNION { IvsIn(T[3][i]) : i \in 1..Len(T[3]) }
              [] OTHER -> {}
\* Type.get_stvars: names of schematic type variables, first occurrence order
AddNew(seq, x) == IF \E i \in 1..Len(seq) : seq[i] = x THEN seq ELSE Append(seq, x)
STVarSeqArgs(Ts, i, acc) == IF i > Len(Ts) THEN acc ELSE
     STVarSeqArgs(Ts, i + 1, LET T == Ts[i] IN
        CASE T[1] = "stv" -> AddNew(acc, T[2]) [] T[1] = "tc" -> STVarSeqArgs(T[3], 1, acc) [] OTHER -> acc)
STVarSeq(T) == STVarSeqArgs(<<T>>, 1, <<>>)

InitSt == [uf |-> <<>>, reach |-> <<>>, ic |-> <<>>, isc |-> <<>>, st |-> "ok", err |-> ""]
Fail(s, kind) == IF s.st = "ok" THEN [s EXCEPT !.st = "fail", !.err = kind] ELSE s
NumIv(s) == Len(s.uf)
\* new_type(): the new variable is Iv(NumIv(s))
NewTypes(s, n) == [s EXCEPT !.uf = @ \o [i \in 1..n |-> Iv(Len(s.uf) + i - 1)], !.reach = @ \o [i \in 1..n |-> {}]]
Rep(s, T) == IF IsIv(T) THEN s.uf[IvIdx(T) + 1] ELSE T

\* the internal variables reachable from T through the current bindings
RECURSIVE ReachFrom(_,_,_)
ReachFrom(uf, frontier, seen) ==
  LET new == UNION { IF uf[k + 1] = Iv(k) THEN {} ELSE IvsIn(uf[k + 1]) : k \in frontier } \ seen
  IN IF new = {} THEN seen ELSE ReachFrom(uf, new, seen \cup new)
ExactReach(uf, T) == LET f == IvsIn(T) IN ReachFrom(uf, f, f)
\* union(T1, T2): T1 is an internal representative.  As found (~opt.exact): only the entries EQUAL to T1 are
\* redirected and only their reach sets are extended; entries whose binding merely CONTAINS T1 keep a stale reach
\* set, so the test below can miss a cycle: the binding is accepted and the state becomes "cyc".
Union(s, T1, T2, opt) ==
  LET nr  == IF IsIv(T2) THEN s.reach[IvIdx(T2) + 1]
             ELSE UNION { {v} \cup s.reach[v + 1] : v \in IvsIn(T2) }
      enr == ExactReach(s.uf, T2)
      hit == { k \in 1..Len(s.uf) : s.uf[k] = T1 }
      use == IF opt.exact THEN enr ELSE nr
      s2  == [s EXCEPT !.uf    = [k \in 1..Len(s.uf) |-> IF k \in hit THEN T2 ELSE s.uf[k]],
                       !.reach = [k \in 1..Len(s.uf) |-> IF k \in hit THEN s.reach[k] \cup use ELSE s.reach[k]]]
  IN IF \E k \in hit : (k - 1) \in use THEN Fail(s, "loop")
     ELSE IF \E k \in hit : (k - 1) \in enr THEN [s2 EXCEPT !.st = "cyc"]
     ELSE s2

RECURSIVE Unify(_,_,_,_), UnifyArgs(_,_,_,_,_)
Unify(s, A1, A2, opt) ==
  IF s.st # "ok" THEN s ELSE
  LET T1 == Rep(s, A1)  T2 == Rep(s, A2) IN
  IF T1[1] = "tc" /\ T2[1] = "tc" /\ T1[2] = T2[2] THEN
       (IF Len(T1[3]) = Len(T2[3]) THEN UnifyArgs(s, T1[3], T2[3], 1, opt) ELSE Fail(s, "arity"))
  ELSE IF T1[1] = "tv" /\ T2[1] = "tv" /\ T1[2] = T2[2] THEN s
  ELSE IF T1[1] = "stv" /\ T2[1] = "stv" /\ T1[2] = T2[2] THEN s
  ELSE IF IsIv(T1) THEN Union(s, T1, T2, opt)
  ELSE IF IsIv(T2) THEN Union(s, T2, T1, opt)
  ELSE Fail(s, "unify")
UnifyArgs(s, a1, a2, i, opt) == IF s.st # "ok" \/ i > Len(a1) THEN s ELSE UnifyArgs(Unify(s, a1[i], a2[i], opt), a1, a2, i + 1, opt)

\* ---- binding graph of the internal variables (ghost) ----
\* k -> the internal variables occurring in the binding of k (none for an unbound k); cyclic iff peeling off the
\* variables without remaining successors does not exhaust the graph
Succ(uf) == [k \in 0..(Len(uf) - 1) |-> IF uf[k + 1] = Iv(k) THEN {} ELSE IvsIn(uf[k + 1])]
RECURSIVE Peel(_,_)
Peel(S, succ) == LET done == { k \in S : succ[k] \cap S = {} } IN IF done = {} THEN S ELSE Peel(S \ done, succ)
CyclicUf(uf) == LET succ == Succ(uf) IN Peel({ k \in 0..(Len(uf) - 1) : succ[k] # {} }, succ) # {}
\* full resolution of a type under an ACYCLIC binding
RECURSIVE Resolve(_,_)
Resolve(uf, T) == CASE T[1] = "stv" -> IF IsIv(T) /\ IvIdx(T) < Len(uf) /\ uf[IvIdx(T) + 1] # T THEN Resolve(uf, uf[IvIdx(T) + 1]) ELSE T
                    [] T[1] = "tc" -> <<"tc", T[2], [i \in 1..Len(T[3]) |-> Resolve(uf, T[3][i])]>>
                    [] OTHER -> T
RECURSIVE ResolveTerm(_,_)
ResolveTerm(uf, t) == CASE t[1] \in {"svar","var","const"} -> <<t[1], t[2], Resolve(uf, t[3])>>
   [] t[1] = "comb" -> <<"comb", ResolveTerm(uf, t[2]), ResolveTerm(uf, t[3])>>
   [] t[1] = "abs" -> <<"abs", Resolve(uf, t[2]), ResolveTerm(uf, t[3])>>
   [] OTHER -> t

\* ---- infer(t, bd_vars): returns [s, t (types filled in), T] ----
R(s, t, T) == [s |-> s, t |-> t, T |-> T]
\* One occurrence of a (schematic) variable.  al = incr_ctxt / incr_sctxt, decl = the declared types.
\* The occurrence takes its annotation, else the declared type, else the type recorded for the name, else a new
\* internal variable (recorded).  opt.avc = ALL occurrences of a name are tied together: the first one is recorded,
\* every later one is unified with the record (in the code as found only un-annotated, undeclared ones are).
VarStep(t, s, al, decl, opt) ==
  LET given  == t[3] # NoneT
      isdecl == ~given /\ t[2] \in Keys(decl)
      inal   == t[2] \in Keys(al)
      fresh  == ~given /\ ~isdecl /\ ~inal
      T  == IF given THEN t[3] ELSE IF isdecl THEN Lookup(decl, t[2]) ELSE IF inal THEN Lookup(al, t[2]) ELSE Iv(NumIv(s))
      s0 == IF fresh THEN NewTypes(s, 1) ELSE s
  IN [s  |-> IF opt.avc /\ inal THEN Unify(s0, T, Lookup(al, t[2]), opt) ELSE s0,
      T  |-> T,
      al |-> IF (fresh \/ opt.avc) /\ ~inal THEN Append(al, <<t[2], T>>) ELSE al]
RECURSIVE Infer(_,_,_,_,_,_)
Infer(t, bd, s, ctx, sig, opt) ==
  IF s.st # "ok" THEN R(s, t, NoneT) ELSE
  CASE t[1] = "svar" -> LET v == VarStep(t, s, s.isc, ctx.svars, opt) IN R([v.s EXCEPT !.isc = v.al], <<"svar", t[2], v.T>>, v.T)
    [] t[1] = "var" -> LET v == VarStep(t, s, s.ic, ctx.vars, opt) IN R([v.s EXCEPT !.ic = v.al], <<"var", t[2], v.T>>, v.T)
    [] t[1] = "const" ->
         IF t[3] # NoneT THEN R(s, t, t[3])
         ELSE IF t[2] \notin Keys(sig) THEN R(Fail(s, "nosig"), t, NoneT)
         ELSE LET D == Lookup(sig, t[2])
                  vs == STVarSeq(D)
                  ti == [i \in 1..Len(vs) |-> <<vs[i], Iv(NumIv(s) + i - 1)>>]
                  T == TSubst(D, ti)
              IN R(NewTypes(s, Len(vs)), <<"const", t[2], T>>, T)
    [] t[1] = "comb" ->
         LET rf == Infer(t[2], bd, s, ctx, sig, opt)
             ra == Infer(t[3], bd, rf.s, ctx, sig, opt)
             t2 == <<"comb", rf.t, ra.t>>
         IN IF ra.s.st # "ok" THEN R(ra.s, t2, NoneT)
            ELSE IF ~IsFun(rf.T) /\ ~IsIv(rf.T) THEN R(Fail(ra.s, "nofun"), t2, NoneT)
            ELSE IF IsFun(rf.T) THEN R(Unify(ra.s, rf.T[3][1], ra.T, opt), t2, rf.T[3][2])
            ELSE LET resT == Iv(NumIv(ra.s)) IN R(Unify(NewTypes(ra.s, 1), rf.T, FunT(ra.T, resT), opt), t2, resT)
    [] t[1] = "abs" ->
         LET fresh == t[2] = NoneT
             vT == IF fresh THEN Iv(NumIv(s)) ELSE t[2]
             rb == Infer(t[3], <<vT>> \o bd, IF fresh THEN NewTypes(s, 1) ELSE s, ctx, sig, opt)
         IN R(rb.s, <<"abs", vT, rb.t>>, FunT(vT, rb.T))
    [] t[1] = "bound" -> IF t[2] < Len(bd) THEN R(s, t, bd[t[2] + 1]) ELSE R(Fail(s, "loose"), t, NoneT)
    [] OTHER -> R(Fail(s, "shape"), t, NoneT)

\* ---- type_infer(t, forbid_internal): outcome record [kind, err, t] ----
\*   kind "term"     : t is the returned term
\*        "own"      : TypeInferenceException, err is its kind
\*        "diverged" : a cyclic binding was accepted (unify / the final substitution loop need not terminate)
NoTerm == <<"none">>
Opt(exact, avc) == [exact |-> exact, avc |-> avc]
Unspecified(uf) == { k \in 1..Len(uf) : uf[k] = Iv(k - 1) }
Outcome(skel, ctx, sig, opt, forbid) ==
  LET r == Infer(skel, <<>>, InitSt, ctx, sig, opt) IN
  IF r.s.st = "fail" THEN [kind |-> "own", err |-> r.s.err, t |-> NoTerm]
  ELSE IF r.s.st = "cyc" THEN [kind |-> "diverged", err |-> "", t |-> NoTerm]
  ELSE IF forbid /\ Unspecified(r.s.uf) # {} THEN [kind |-> "own", err |-> "unspecified", t |-> NoTerm]
  ELSE [kind |-> "term", err |-> "", t |-> ResolveTerm(r.s.uf, r.t)]
=============================================================================
