SPECIFICATION Spec
CONSTANTS MaxItems = 3
 MaxSub = 0
 MaxBlocks = 0
 MaxDepth = 1
 MaxLeaves = 99
 Lean = FALSE
 Budget = 2
 IdOffs <- IdOffs3
 Rules = {"assume", "implies_intr", "substitution", "sorry", ""}
 ArgKinds = {}
 ArityOffs <- ArityOffs1
 MaxAlias = 0
 Emit = TRUE
INVARIANT RefSound
INVARIANT RefGapFree
INVARIANT RefGapCount
INVARIANT RefModes
INVARIANT RefPositions
INVARIANT RefDecides
CHECK_DEADLOCK FALSE
