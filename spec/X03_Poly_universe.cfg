SPECIFICATION Spec
CONSTANTS MaxMono = 2
 CoefSet <- Coefs3
 MaxOps = 1
 MaxSize = 12
 InitP <- UniverseP
 InitQ <- QOne
 InitR <- RSmall
 Gens <- GensSmall
 Scalars <- ScalarsOne
 Kinds <- KindsLaws
 Record = TRUE
 EmitAll = TRUE
INVARIANT NormalForm
INVARIANT EvalCommutes
INVARIANT EvalDefined
INVARIANT RingLaws
INVARIANT SeqDenotes
CHECK_DEADLOCK FALSE
