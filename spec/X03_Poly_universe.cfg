SPECIFICATION Spec
CONSTANTS MaxMono = 2
 MaxOps = 1
 MaxSize = 12
 InitP <- UniverseP
 InitQ <- QSmall
 InitR <- RSmall
 Gens <- GensSmall
 Scalars <- ScalarsOne
 Kinds <- KindsLaws
 Record = TRUE
 EmitAll = TRUE
INVARIANT NormalForm
INVARIANT EvalCommutes
INVARIANT EvalDefined
INVARIANT RingLaws
CHECK_DEADLOCK FALSE
