------------------------------- MODULE C03_Heap -------------------------------
(* I-specification for C03 (history part): identity tokens of terms on a heap with       *)
(* address reuse, as coded in kernel/term.py:                                             *)
(*   - every constructor (Var, Comb, ...) stores  _id = id(self)  (the object's address)  *)
(*   - Term(t) copies the WHOLE field dictionary of t onto the new object                 *)
(*     (CopyReowns = TRUE models a constructor that afterwards sets _id = id(self))       *)
(*   - __eq__ : identity-token fast path, then structure                                  *)
(*   - garbage collection frees an address, a later allocation may reuse it               *)
(* Invariants: EqCorrect (== is structural equality whatever the history),                *)
(*             TokenOwn (every live object's token is its own address) -- inductive iff   *)
(*             CopyReowns; TLC shows  ~CopyReowns => EqCorrect violated in 5 steps.        *)
EXTENDS Naturals, FiniteSets, TLC
CONSTANTS Addr, Structs, MaxSteps, CopyReowns
VARIABLES heap, live, steps, lastEq
vars == <<heap, live, steps, lastEq>>
Init == heap = [a \in Addr |-> [s |-> "none", tok |-> a]] /\ live = {} /\ steps = 0 /\ lastEq = <<"none">>
New(a, st) == a \notin live /\ heap' = [heap EXCEPT ![a] = [s |-> st, tok |-> a]] /\ live' = live \cup {a} /\ lastEq' = <<"none">>
CopyInit(a, src) == /\ a \notin live /\ src \in live
                    /\ heap' = [heap EXCEPT ![a] = [s |-> heap[src].s, tok |-> IF CopyReowns THEN a ELSE heap[src].tok]]
                    /\ live' = live \cup {a} /\ lastEq' = <<"none">>
Free(a) == a \in live /\ live' = live \ {a} /\ heap' = heap /\ lastEq' = <<"none">>
EqImpl(a, b) == IF heap[a].tok = heap[b].tok THEN TRUE ELSE heap[a].s = heap[b].s
Eq(a, b) == a \in live /\ b \in live /\ lastEq' = <<"eq", a, b, EqImpl(a, b), heap[a].s = heap[b].s>>
            /\ UNCHANGED <<heap, live>>
Next == /\ steps < MaxSteps /\ steps' = steps + 1
        /\ \/ \E a \in Addr, st \in Structs : New(a, st)
           \/ \E a \in Addr, src \in Addr : CopyInit(a, src)
           \/ \E a \in Addr : Free(a)
           \/ \E a \in Addr, b \in Addr : Eq(a, b)
Spec == Init /\ [][Next]_vars
EqCorrect == lastEq[1] = "eq" => lastEq[4] = lastEq[5]
TokenOwn == \A a \in live : heap[a].tok = a
=============================================================================
