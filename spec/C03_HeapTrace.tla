----------------------------- MODULE C03_HeapTrace -----------------------------
(* T-specification for C03 (history part).  Events: one per action of a real history of   *)
(* object creation / copy-construction Term(t) / garbage collection / address reuse       *)
(* (harness/drivers/c03.py heap).  The trace spec follows the recorded addresses and       *)
(* tokens (heap, live) and evaluates, at every == call,                                    *)
(*    EqCorrect   : the answer is structural equality of the two operands                  *)
(*    EqualHashes : structurally equal operands have equal hashes                          *)
(* Divergence: the recorded token / answer differs from what C03_Heap's actions predict.   *)
EXTENDS TraceLib, FiniteSets
VARIABLES heap, live
NoObj == [s |-> "none", tok |-> "none"]
Get(a) == IF a \in DOMAIN heap THEN heap[a] ELSE NoObj
Put(h, a, o) == [x \in DOMAIN h \cup {a} |-> IF x = a THEN o ELSE h[x]]
Base(e) == IF e.first THEN <<>> ELSE heap
BaseLive(e) == IF e.first THEN {} ELSE live
EqImpl(h, a, b) == IF a \in DOMAIN h /\ b \in DOMAIN h
                   THEN (IF h[a].tok = h[b].tok THEN TRUE ELSE h[a].s = h[b].s) ELSE FALSE
ClausesOf(e) ==
  IF e.act = "eq" THEN (IF e.res = (e.ea = e.eb) THEN {} ELSE {"EqCorrect"})
                       \cup (IF (e.ea = e.eb) /\ ~e.heq THEN {"EqualHashes"} ELSE {})
  ELSE {}
DivergesOf(e) ==
  CASE e.act = "new" -> e.tok # e.a
    [] e.act = "copy" -> e.tok # e.a                      \* the model with CopyReowns
    [] e.act = "eq" -> e.res # EqImpl(Base(e), e.a, e.b)
    [] OTHER -> FALSE
TNext == LET e == Trace[l] IN
  /\ TStep(e.tid, ClausesOf(e), e.act = "eq" /\ e.a # e.b, DivergesOf(e))
  /\ CASE e.act \in {"new", "copy"} -> heap' = Put(Base(e), e.a, [s |-> e.st, tok |-> e.tok]) /\ live' = BaseLive(e) \cup {e.a}
       [] e.act = "free" -> heap' = Base(e) /\ live' = BaseLive(e) \ {e.a}
       [] OTHER -> heap' = Base(e) /\ live' = BaseLive(e)
TSpec == TInit /\ heap = <<>> /\ live = {} /\ [][TNext]_<<l, heap, live>>
=============================================================================
