SPECIFICATION ESpec
CONSTANTS Depth = 3
 N = 2
 MaxSize = 8
CHECK_DEADLOCK FALSE
