SPECIFICATION Spec
CONSTANTS
  MaxOps = 3
  ObjNames = {"T1", "T2", "S1", "S2", "S2r", "L2", "L3", "I2"}
  CfgNames = {"ap", "ah", "up", "uh"}
INVARIANT PrintStable
INVARIANT PrintIsFunction
CHECK_DEADLOCK FALSE
