SPECIFICATION Spec
CONSTANTS N = 4
 MaxCalls = 3
 WithList = FALSE
 ExactOccursCheck = TRUE
INVARIANT TypeOK
INVARIANT Flat
INVARIANT AcyclicOrRejected
INVARIANT SubstTerminates
INVARIANT SubstIsResolve
INVARIANT UnifierOK
CHECK_DEADLOCK FALSE
