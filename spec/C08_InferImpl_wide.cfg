SPECIFICATION Spec
CONSTANTS N = 4
 MaxCalls = 3
 WithList = TRUE
 FinalOccursCheck = TRUE
INVARIANT TypeOK
INVARIANT Flat
INVARIANT AcyclicOrRejected
INVARIANT SubstTerminates
INVARIANT SubstIsResolve
INVARIANT UnifierOK
CHECK_DEADLOCK FALSE
