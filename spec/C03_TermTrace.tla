----------------------------- MODULE C03_TermTrace -----------------------------
(* T-specification for C03 (algebra): events from kernel/term.py (harness/drivers/c03.py). *)
(*  kind "op"        : an operation vector performed by the real code, result r            *)
(*                     clauses = the semantic laws of C03_Laws (Judge)                      *)
(*  kind "unchanged" : the operand after the operation must be the operand before           *)
(*  kind "eq"        : t1 == t2, hash equality, fast_compare both ways                      *)
(*  kind "cmp3"      : fast_compare on a triple (transitivity)                              *)
(*  kind "eqT"       : the same for types                                                   *)
EXTENDS C03_Laws, TraceLib
VecOf(e) == [op |-> e.op, t |-> e.t, env |-> e.env, v |-> e.v, u |-> e.u, ty |-> e.ty, sv |-> e.sv]
OkInputs(e) == /\ TypeOf(e.t, e.env) # Err
               /\ e.u = NoneT \/ TypeOf(e.u, e.env) # Err
               /\ \A k \in 1..Len(e.sv) : WellTyped(e.sv[k][2])
Same(a, b) == a = b
Leq(c) == c <= 0
ClausesOf(e) ==
  CASE e.kind = "op" -> IF e.outcome = "ok" /\ OkInputs(e) THEN Judge(VecOf(e), e.r) ELSE {}
    [] e.kind = "unchanged" -> IF e.before = e.after THEN {} ELSE {"OperandMutated"}
    [] e.kind = "eq" ->
         IF e.outcome # "ok" THEN {"EqRaised"}
         ELSE (IF e.eq = Same(e.t1, e.t2) /\ e.eq21 = e.eq THEN {} ELSE {"EqIsAlpha"})
              \cup (IF Same(e.t1, e.t2) /\ ~e.heq THEN {"EqualHashes"} ELSE {})
              \cup (IF (e.c12 = 0) = Same(e.t1, e.t2) THEN {} ELSE {"OrderCompatible"})
              \cup (IF e.c12 = 0 - e.c21 THEN {} ELSE {"OrderAntisymmetric"})
    [] e.kind = "cmp3" ->
         IF e.outcome # "ok" THEN {"CmpRaised"}
         ELSE (IF (Leq(e.c[1]) /\ Leq(e.c[2]) => Leq(e.c[3])) /\ (Leq(e.c[5]) /\ Leq(e.c[4]) => Leq(e.c[6])) THEN {} ELSE {"OrderTransitive"})
              \cup (IF e.c[1] = 0 - e.c[4] /\ e.c[2] = 0 - e.c[5] /\ e.c[3] = 0 - e.c[6] THEN {} ELSE {"OrderAntisymmetric"})
    [] e.kind = "eqT" ->
         IF e.outcome # "ok" THEN {"EqRaised"}
         ELSE (IF e.eq = Same(e.T1, e.T2) /\ e.eqcopy = e.eq THEN {} ELSE {"TypeEqStructural"})
              \cup (IF Same(e.T1, e.T2) /\ ~e.heq THEN {"EqualHashes"} ELSE {})
              \cup (IF (e.c12 = 0) = Same(e.T1, e.T2) THEN {} ELSE {"OrderCompatible"})
              \cup (IF e.c12 = 0 - e.c21 THEN {} ELSE {"OrderAntisymmetric"})
    [] OTHER -> {}
NontrivialOf(e) ==
  CASE e.kind = "op" -> e.outcome = "ok" /\ OkInputs(e) /\ Examined(VecOf(e), e.r)
    [] e.kind = "unchanged" -> FALSE
    [] OTHER -> e.outcome = "ok"
DivergesOf(e) ==
  IF e.kind # "op" \/ ~OkInputs(e) THEN FALSE
  ELSE LET x == Ref(VecOf(e)) IN IF e.outcome = "ok" THEN x # e.r ELSE x # Err
TNext == LET e == Trace[l] IN TStep(e.tid, ClausesOf(e), NontrivialOf(e), DivergesOf(e))
TSpec == TInit /\ [][TNext]_l
=============================================================================
