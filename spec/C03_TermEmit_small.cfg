SPECIFICATION ESpec
CONSTANTS Depth = 2
 N = 2
 MaxSize = 7
CHECK_DEADLOCK FALSE
