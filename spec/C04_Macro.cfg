SPECIFICATION Spec
CONSTANTS Props = {1, 2, 3}
 Levels = {0, 1, 10}
INVARIANT Agreement
CHECK_DEADLOCK FALSE
