SPECIFICATION Spec
CONSTANTS NVars = 2
 MaxLen = 2
 MaxClauses = 6
 Shape = "set"
INVARIANT ResolutionSound
INVARIANT RefutationComplete
INVARIANT CertificateAccepted
INVARIANT CertificateOnlyIfUnsat
INVARIANT ReplayFaithful
POSTCONDITION Emit
CHECK_DEADLOCK FALSE
