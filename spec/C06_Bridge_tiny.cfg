SPECIFICATION Spec
CONSTANTS MaxConn = 2
 MaxBin = 1
 Flavours = {"nat", "natreal"}
 MainIdx = {1, 2, 3, 6, 11}
 SideIdx = {4}
 RMainIdx = {1}
 RSideIdx = {3}
 N = 2
INVARIANT TypeOK
INVARIANT WellScoped
INVARIANT OracleOK
POSTCONDITION Emit
CHECK_DEADLOCK FALSE
