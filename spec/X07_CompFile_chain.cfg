SPECIFICATION Spec
CONSTANTS MaxOps = 5
 MaxItems = 1
 MaxSteps = 3
 AsCoded = FALSE
 Record = FALSE
 EmitAll = FALSE
INVARIANT TreeShape
INVARIANT StepIds
INVARIANT LabelsExact
INVARIANT LabelsNeverAnotherNode
INVARIANT CodeDiffersOnlyThere
INVARIANT EditExact
INVARIANT FinishedExact
INVARIANT FactsPreceding
CHECK_DEADLOCK FALSE
