SPECIFICATION Spec
CONSTANTS Depth = 2
 N = 2
 MaxSize = 7
INVARIANT RefLawful
CHECK_DEADLOCK FALSE
