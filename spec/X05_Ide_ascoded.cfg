SPECIFICATION Spec
CONSTANTS
  MaxOps = 3
  MaxLevel = 5
  KeepLast = TRUE
  Record = TRUE
  EmitBadOnly = TRUE
  Interferer = "ub"
  FirstOpens = FALSE
  SwOrderUser = FALSE
  SwLoadUser = FALSE
  SwFreshMeta = FALSE
  SwTotal = FALSE
  SwApplyReload = FALSE
  SwCacheWorld = FALSE
  SwCreateAtomic = FALSE
  SwFailKeeps = TRUE
CHECK_DEADLOCK FALSE
