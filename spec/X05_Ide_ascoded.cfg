SPECIFICATION Spec
CONSTANTS
  MaxOps = 4
  Record = FALSE
  EmitBadOnly = FALSE
  Interferer = "ub"
  FirstOpens = FALSE
  SwOrderUser = FALSE
  SwLoadUser = FALSE
  SwFreshMeta = FALSE
  SwTotal = FALSE
  SwApplyReload = FALSE
  SwCacheWorld = FALSE
  SwCreateAtomic = FALSE
  SwFailKeeps = TRUE
INVARIANT Totality
INVARIANT Persistence
INVARIANT SaveExact
INVARIANT RemoveExact
INVARIANT ReadOnly
INVARIANT Faithful
INVARIANT FailedStepKeeps
INVARIANT Isolation
CHECK_DEADLOCK FALSE
