SPECIFICATION Spec
CONSTANTS MaxItems = 2
 MaxSub = 0
 MaxBlocks = 0
 MaxDepth = 1
 MaxLeaves = 99
 Lean = TRUE
 Budget = 2
 IdOffs <- IdOffs1
 Rules = {"assume", "implies_elim", "reflexive", "symmetric", "transitive", "equal_intr", "equal_elim", "substitution", "subst_type", "forall_intr"}
 ArgKinds = {"none", "term", "thm", "inst"}
 ArityOffs <- ArityOffs3
 MaxAlias = 0
 Emit = TRUE
INVARIANT RefSound
INVARIANT RefGapFree
INVARIANT RefGapCount
INVARIANT RefModes
INVARIANT RefPositions
INVARIANT RefDecides
CHECK_DEADLOCK FALSE
