SPECIFICATION Spec
CONSTANTS MaxItems = 1
 MaxSub = 1
 MaxBlocks = 1
 MaxDepth = 1
 MaxLeaves = 99
 Lean = FALSE
 Budget = 3
 IdOffs <- IdOffs3
 Rules = {"assume", "substitution", "sorry", "subproof"}
 ArgKinds = {}
 ArityOffs <- ArityOffs1
 MaxAlias = 0
 Emit = TRUE
INVARIANT RefSound
INVARIANT RefGapFree
INVARIANT RefGapCount
INVARIANT RefModes
INVARIANT RefPositions
INVARIANT RefDecides
CHECK_DEADLOCK FALSE
