SPECIFICATION Spec
CONSTANTS
  TyNames = {"a", "b"}
  TmNames = {"A", "a"}
  NTy = 3
  NTm = 3
  NList = 2
INVARIANT ArgRoundTrip
CHECK_DEADLOCK FALSE
