SPECIFICATION Spec
CONSTANTS MaxOps = 3
 MaxItems = 2
 MaxSteps = 2
 AsCoded = FALSE
 Record = TRUE
 EmitAll = TRUE
INVARIANT TreeShape
INVARIANT EditExact
CHECK_DEADLOCK FALSE
