----------------------------- MODULE C16_LinCore -----------------------------
(* Exact linear arithmetic shared by the S and T specifications of C16.                       *)
(*   row      <<a_1..a_n, op, b>>   means  a.x op b   (op: 1 ">=", 2 "<=", 3 ">", 4 "<")        *)
(*   factoid  <<a_1..a_n, c>>       means  0 <= a.x + c        (the Omega-test format)          *)
(*   point    nums / d              a tuple of integer numerators over ONE positive denominator *)
(* Everything is integer arithmetic (a.nums op b*d), so every judgement is exact.              *)
EXTENDS Integers, Sequences, FiniteSets

AbsI(x) == IF x < 0 THEN -x ELSE x
RECURSIVE GcdN(_, _)
GcdN(a, b) == IF b = 0 THEN a ELSE GcdN(b, a % b)
Gcd(a, b) == GcdN(AbsI(a), AbsI(b))
RangeOf(s) == { s[k] : k \in 1..Len(s) }

RECURSIVE DotR(_, _, _)
DotR(r, p, k) == IF k = 0 THEN 0 ELSE r[k] * p[k] + DotR(r, p, k - 1)

\* ---------------------------------------------------------------- rows
RowHolds(r, nums, d) ==
  LET n == Len(r) - 2  v == DotR(r, nums, n)  rhs == r[n + 2] * d  op == r[n + 1] IN
  CASE op = 1 -> v >= rhs [] op = 2 -> v <= rhs [] op = 3 -> v > rhs [] op = 4 -> v < rhs [] OTHER -> FALSE
AllHold(S, nums, d) == \A r \in S : RowHolds(r, nums, d)
\* the same constraint with ">=" / ">" only (for comparing constraints as linear forms)
CanonRow(r) ==
  LET n == Len(r) - 2  op == r[n + 1] IN
  IF op = 2 \/ op = 4 THEN [k \in 1..(n + 2) |-> IF k = n + 1 THEN (IF op = 2 THEN 1 ELSE 3) ELSE -r[k]] ELSE r

\* ---------------------------------------------------------------- factoids
FHolds(f, nums, d) == LET n == Len(f) - 1 IN DotR(f, nums, n) + f[n + 1] * d >= 0
FAllHold(S, nums, d) == \A f \in S : FHolds(f, nums, d)
FRow(f) == LET n == Len(f) - 1 IN [k \in 1..(n + 2) |-> IF k <= n THEN f[k] ELSE IF k = n + 1 THEN 1 ELSE -f[n + 1]]
RECURSIVE KeyGcd(_, _)
KeyGcd(f, k) == IF k = 0 THEN 0 ELSE Gcd(f[k], KeyGcd(f, k - 1))
\* integer tightening ("GCD check"): g | a.x  so  a.x >= -c  iff  (a/g).x >= ceil(-c/g) = -floor(c/g)
Tighten(f) == LET n == Len(f) - 1  g == KeyGcd(f, n) IN
              IF g > 1 THEN [k \in 1..(n + 1) |-> f[k] \div g] ELSE f
\* Fourier-Motzkin / real shadow of a lower bound L (L[i] > 0) and an upper bound U (U[i] < 0)
CombReal(i, L, U) == LET c == L[i]  d == -U[i]  g == Gcd(c, d) IN
                     [k \in 1..Len(L) |-> (d \div g) * L[k] + (c \div g) * U[k]]
\* dark shadow (Pugh): b*L + a*U - (a-1)(b-1) >= 0  guarantees an INTEGER value for x_i
CombDark(i, L, U) == LET a == L[i]  b == -U[i]  n == Len(L) - 1 IN
                     [k \in 1..Len(L) |-> IF k <= n THEN b * L[k] + a * U[k]
                                          ELSE b * L[k] + a * U[k] - (a - 1) * (b - 1)]
Lowers(S, i) == { f \in S : f[i] > 0 }
Uppers(S, i) == { f \in S : f[i] < 0 }
Rest(S, i)   == { f \in S : f[i] = 0 }
\* kind "rat": plain Fourier-Motzkin;  "real": real shadow + tightening;  "dark": dark shadow + tightening
Shadow(kind, S, i) ==
  Rest(S, i) \cup
  UNION { { LET f == IF kind = "dark" THEN CombDark(i, L, U) ELSE CombReal(i, L, U) IN
            IF kind = "rat" THEN f ELSE Tighten(f) : U \in Uppers(S, i) } : L \in Lowers(S, i) }
\* Pugh's exactness condition: real and dark shadow coincide
ExactVar(S, i) == (\A f \in Lowers(S, i) : f[i] = 1) \/ (\A f \in Uppers(S, i) : f[i] = -1)

\* ---------------------------------------------------------------- bounded search (n <= 5)
ExistsPt(P(_), n, R) ==
  CASE n = 0 -> P(<<>>)
    [] n = 1 -> \E a \in R : P(<<a>>)
    [] n = 2 -> \E a \in R : \E b \in R : P(<<a, b>>)
    [] n = 3 -> \E a \in R : \E b \in R : \E c \in R : P(<<a, b, c>>)
    [] n = 4 -> \E a \in R : \E b \in R : \E c \in R : \E e \in R : P(<<a, b, c, e>>)
    [] n = 5 -> \E a \in R : \E b \in R : \E c \in R : \E e \in R : \E g \in R : P(<<a, b, c, e, g>>)
    [] OTHER -> FALSE
ForAllPt(P(_), n, R) ==
  CASE n = 0 -> P(<<>>)
    [] n = 1 -> \A a \in R : P(<<a>>)
    [] n = 2 -> \A a \in R : \A b \in R : P(<<a, b>>)
    [] n = 3 -> \A a \in R : \A b \in R : \A c \in R : P(<<a, b, c>>)
    [] OTHER -> FALSE
\* two-variable specialisations (same meaning as AllHold / FAllHold on <<a, b>>, much faster in TLC; their agreement
\* with the generic operators is invariant SpecialisationOK of C16_LinArith)
RowHolds2(r, a, b, d) ==
  LET v == r[1] * a + r[2] * b  rhs == r[4] * d  op == r[3] IN
  CASE op = 1 -> v >= rhs [] op = 2 -> v <= rhs [] op = 3 -> v > rhs [] op = 4 -> v < rhs [] OTHER -> FALSE
AllHold2(S, a, b, d) == \A r \in S : RowHolds2(r, a, b, d)
FAllHold2(S, a, b, d) == \A f \in S : f[1] * a + f[2] * b + f[3] * d >= 0
\* an integer point of the box [-B, B]^n satisfies the rows / factoids
IntSat(S, n, B)  == IF n = 2 THEN \E a \in (-B)..B : \E b \in (-B)..B : AllHold2(S, a, b, 1)
                    ELSE ExistsPt(LAMBDA p : AllHold(S, p, 1), n, (-B)..B)
IntSatG(S, n, B) == ExistsPt(LAMBDA p : AllHold(S, p, 1), n, (-B)..B)
FIntSat(S, n, B) == ExistsPt(LAMBDA p : FAllHold(S, p, 1), n, (-B)..B)
\* a rational point  nums/d, d \in Ds, |nums_k| <= K  satisfies them
RatSat(S, n, Ds, K)  == IF n = 2 THEN \E d \in Ds : \E a \in (-K)..K : \E b \in (-K)..K : AllHold2(S, a, b, d)
                        ELSE \E d \in Ds : ExistsPt(LAMBDA p : AllHold(S, p, d), n, (-K)..K)
RatSatG(S, n, Ds, K) == \E d \in Ds : ExistsPt(LAMBDA p : AllHold(S, p, d), n, (-K)..K)
FRatSat(S, n, Ds, K) == \E d \in Ds : ExistsPt(LAMBDA p : FAllHold(S, p, d), n, (-K)..K)
=============================================================================
