SPECIFICATION Spec
CONSTANTS
  MaxOps = 3
  ObjNames = {"T1", "S2", "L2", "I2"}
  CfgNames = {"ap", "ah", "uh"}
INVARIANT PrintStable
INVARIANT PrintIsFunction
CHECK_DEADLOCK FALSE
