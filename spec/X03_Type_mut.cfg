SPECIFICATION Spec
CONSTANTS Depth = 1
 MaxOps = 2
 Pats <- PatsTiny
 Targs <- TargsTiny
 Insts <- InstsSmall
 CmpSet <- CmpSmall
 Cmp3Set <- Cmp3Tiny
 Kinds <- KindsHist
 Record = FALSE
 EmitAll = FALSE
INVARIANT StepsLawful
INVARIANT LookLawful
INVARIANT InstsFunctional
INVARIANT ComposeLaw
INVARIANT MatcherIsReference
INVARIANT OrdersLawful
CHECK_DEADLOCK FALSE
