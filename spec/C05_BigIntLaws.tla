--------------------------- MODULE C05_BigIntLaws ---------------------------
(* Verification of lib/BigInt.tla by TLC.  One state per triple (a, b, c):                                   *)
(*  - a, b range over native integers chosen around the limb boundaries (10^4, 10^8) and the sign change;     *)
(*    BAdd / BSub / BMul / BCmp must agree with TLC's own + - * < wherever the native result fits in 31 bits, *)
(*    results must be canonical (BOk), BToInt (BFromInt n) = n;                                               *)
(*  - the same a, b are also scaled into multi-limb numbers (x * 10^8 + y * 10^4 + z patterns with limbs 0,   *)
(*    1, 9999: carries and borrows across several limbs) where native arithmetic is not available: there the   *)
(*    ring laws must hold (commutativity, associativity, distributivity, (A + B) - B = A, A * 1 = A,           *)
(*    order compatible with + and with * by positives) and rationals must obey x / y * y = x, QCmp.            *)
EXTENDS BigInt, TLC

CONSTANT Wide          \* TRUE: all limb patterns (thorough tier); FALSE: a third of them (quick tier)
Lim == 2147483647
Natives == {0, 1, 2, 7, 9999, 10000, 10001, 19999, 46340, 46341, 65536, 99999999, 100000000, 100000001, 123456789, 999999999, 1073741823}
Signed == Natives \cup { -n : n \in Natives }
\* multi-limb values: every limb pattern of length 3 over {0, 1, 9999} with a non-zero top limb, both signs, and two long ones
Patterns == { <<x, y, z>> : x \in (IF Wide THEN {0, 1, 9999} ELSE {0, 9999}), y \in (IF Wide THEN {0, 1, 9999} ELSE {0, 9999}), z \in (IF Wide THEN {1, 9999} ELSE {9999}) }
Bigs == { <<1, m>> : m \in Patterns } \cup { <<-1, m>> : m \in {<<9999, 9999, 9999>>, <<0, 0, 1>>} \cup (IF Wide THEN {<<1, 0, 9999>>} ELSE {}) }
        \cup { <<1, <<9999, 9999, 9999, 9999, 9999>>>>, BZero } \cup (IF Wide THEN { <<1, <<1, 0, 0, 0, 0, 1>>>> } ELSE {})
Small3 == IF Wide THEN {BFromInt(0), BFromInt(1), BFromInt(-1), BFromInt(9999), BFromInt(10000), <<1, <<9999, 9999>>>>, <<-1, <<0, 0, 0, 1>>>>}
          ELSE {<<1, <<9999, 9999>>>>, <<-1, <<0, 0, 0, 1>>>>}

VARIABLES a, b, c, mode
vars == <<a, b, c, mode>>
Init == \/ mode = "native" /\ a \in Signed /\ b \in Signed /\ c = 0
        \/ mode = "big" /\ a \in Bigs /\ b \in Bigs /\ c \in Small3
Next == UNCHANGED vars
Spec == Init /\ [][Next]_vars

Fits(n) == n <= Lim /\ -n <= Lim
SumFits(x, y) == (x >= 0 /\ y <= 0) \/ (x <= 0 /\ y >= 0) \/ (x >= 0 /\ y >= 0 /\ x <= Lim - y) \/ (x <= 0 /\ y <= 0 /\ -x <= Lim + y)
Abs(n) == IF n < 0 THEN -n ELSE n
MulFitsN(x, y) == x = 0 \/ y = 0 \/ Abs(x) <= Lim \div Abs(y)
\* the native value of a big integer below 2^31: at most three limbs, computed without overflow
ToNat3(m) == IF Len(m) = 0 THEN 0 ELSE IF Len(m) = 1 THEN m[1] ELSE IF Len(m) = 2 THEN m[1] + BBase * m[2] ELSE m[1] + BBase * m[2] + 100000000 * m[3]
IsNative(x) == Len(x[2]) <= 2 \/ (Len(x[2]) = 3 /\ (x[2][3] < 21 \/ (x[2][3] = 21 /\ x[2][1] + BBase * x[2][2] <= 47483647)))
ToNative(x) == x[1] * ToNat3(x[2])
Sign(n) == IF n < 0 THEN -1 ELSE IF n = 0 THEN 0 ELSE 1

NativeAgrees == mode = "native" =>
  LET A == BFromInt(a)  B == BFromInt(b) IN
  /\ BOk(A) /\ BOk(B) /\ IsNative(A) /\ ToNative(A) = a
  /\ BCmp(A, B) = Sign(a - b)                                                       \* |a|, |b| < 2^30: a - b fits
  /\ LET S == BAdd(A, B)  D == BSub(A, B) IN BOk(S) /\ BOk(D) /\ IsNative(S) /\ ToNative(S) = a + b /\ IsNative(D) /\ ToNative(D) = a - b
  /\ LET P == BMul(A, B) IN BOk(P) /\ P[1] = Sign(a) * Sign(b)
                            /\ (MulFitsN(a, b) => IsNative(P) /\ ToNative(P) = a * b)
                            /\ (~MulFitsN(a, b) => ~IsNative(P))
  /\ BNeg(BNeg(A)) = A /\ BAbs(A) = BFromInt(Abs(a))
RingLaws == mode = "big" =>
  LET ab == BMul(a, b)  ac == BMul(a, c)  bc == BMul(b, c)  apb == BAdd(a, b)  bpc == BAdd(b, c)  amb == BSub(a, b)  cab == BCmp(a, b) IN
  /\ BOk(a) /\ BOk(b) /\ BOk(c)
  /\ BOk(apb) /\ BOk(ab) /\ BOk(amb)
  /\ apb = BAdd(b, a) /\ ab = BMul(b, a)
  /\ BAdd(apb, c) = BAdd(a, bpc) /\ BMul(ab, c) = BMul(a, bc)
  /\ BMul(a, bpc) = BAdd(ab, ac)
  /\ BSub(apb, b) = a /\ BAdd(amb, b) = a /\ BSub(a, a) = BZero
  /\ BMul(a, BOne) = a /\ BAdd(a, BZero) = a /\ BMul(a, BZero) = BZero
  /\ BMul(a, BFromInt(10000)) = BMk(a[1], IF Len(a[2]) = 0 THEN <<>> ELSE <<0>> \o a[2])           \* a shift by one limb
  /\ cab = -BCmp(b, a) /\ (cab = 0 <=> a = b)
  /\ BCmp(BAdd(a, c), bpc) = cab                                                                  \* order and +
  /\ (c[1] > 0 => BCmp(ac, bc) = cab) /\ (c[1] < 0 => BCmp(ac, bc) = -cab)
  /\ cab = amb[1]
RatLaws == mode = "big" /\ b[1] # 0 =>
  LET x == QInt(a)  y == QInt(b)  q == QDiv(x, y) IN
  /\ q[2][1] = 1                                                                                   \* denominators stay positive
  /\ QCmp(QMul(q, y), x) = 0                                                                       \* (a / b) * b = a
  /\ QCmp(QDiv(QMul(x, y), y), x) = 0                                                              \* (a * b) / b = a
  /\ QCmp(QAdd(q, QInt(c)), QDiv(QAdd(x, QMul(QInt(c), y)), y)) = 0                                \* a/b + c = (a + c b)/b
  /\ QCmp(q, QInt(c)) = (IF b[1] > 0 THEN BCmp(a, BMul(c, b)) ELSE -BCmp(a, BMul(c, b)))           \* a/b ? c  iff  a ? c b (sign of b)
  /\ QCmp(QInv(QInv(q)), q) = 0 /\ QInv(QZero) = QZero /\ QCmp(QNeg(q), QDiv(QNeg(x), y)) = 0
  /\ QCmp(QPowRec(q, 2), QMul(q, q)) = 0
=============================================================================
