------------------------------ MODULE C17_CongC ------------------------------
(* S-specification for C17: the abstract machine "a growing set of merged equations".       *)
(*   state    : merged -- the set of equations merged so far (order is forgotten: the answer *)
(*              of test cannot depend on the order of merges by construction)               *)
(*   actions  : Merge(e) for every constant equation a = b and every f(a1, a2) = a          *)
(*   answers  : test(s, t) = <<s, t>> \in Closure(Consts, merged);                           *)
(*              explain(s, t) = any X with Explains(Consts, X, merged, s, t)                 *)
(* Invariants validate the DEFINITION that the other specifications and the trace           *)
(* specification use as the oracle: Closure is a congruence containing the merged equations, *)
(* it is the least one (equal to what holds in every quotient compatible with the           *)
(* equations), the class-map formulation agrees with it, and every entailed equality has an *)
(* explanation.                                                                             *)
EXTENDS C17_Closure
CONSTANTS Consts, MaxOps
VARIABLES merged
Pairs == Consts \X Consts
Init == merged = {}
Merge(e) == Cardinality(merged) < MaxOps /\ merged' = merged \cup {e}
Next == \E e \in CEqs(Consts) \cup FEqs(Consts) : Merge(e)
Spec == Init /\ [][Next]_merged

Cl == Closure(Consts, merged)
ClosureIsCongruence == IsEquiv(Consts, Cl) /\ Compatible(Cl, merged)
ClosureIsLeast == Cl = Entailed(Consts, merged)
FastAgrees == ClosureFast(Consts, merged) = Cl
\* every entailed equality is explained by the merged equations themselves, nothing else is explained by any subset
ExplainExists == \A p \in Pairs : (p \in Cl) <=> Explains(Consts, merged, merged, p[1], p[2])
\* soundness of explanations: an explanation by a subset of the merged equations is entailed (monotonicity)
ExplainSound == \A X \in SUBSET merged : Closure(Consts, X) \subseteq Cl
\* growing the set of equations only grows the closure
Monotone == [][Closure(Consts, merged) \subseteq Closure(Consts, merged')]_merged
=============================================================================
