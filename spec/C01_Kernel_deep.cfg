SPECIFICATION Spec
CONSTANTS MaxRound = 3
 MaxSize = 9
 MaxHyps = 2
 N = 2
 EmitRejected = FALSE
INVARIANT AllWellTyped
INVARIANT AllExaminable
INVARIANT AllValid
INVARIANT NoFalse
INVARIANT NonVacuous
CHECK_DEADLOCK FALSE
