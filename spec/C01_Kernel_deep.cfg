SPECIFICATION Spec
CONSTANTS MaxRound = 3
 MaxSize = 9
 MaxHyps = 2
 N = 2
 EmitRejected = FALSE
 ExtraInst = FALSE
 Focus = FALSE
INVARIANT AllWellTyped

INVARIANT AllValid
INVARIANT NoFalse
INVARIANT NonVacuous
CHECK_DEADLOCK FALSE
