SPECIFICATION Spec
CONSTANTS Coef <- C2
 Pairs <- P1
 SumPairs <- SP1
 Bnd <- B1
 MaxD = 1
 MaxSteps = 2
 SubA <- A2
 LimC <- L1
 SubB <- S1
INVARIANT SameValueInv
INVARIANT SameValueOp
INVARIANT TwoEvaluators
INVARIANT SimplifyIdempotent
POSTCONDITION Emit
CHECK_DEADLOCK FALSE
