---------------------------- MODULE C09_Matcher ----------------------------
(* S-specification for C09: "a successful match really instantiates the pattern to the target".   *)
(*                                                                                                 *)
(* The CONTRACT of matching, stated over the reference term algebra of lib/HolTerms.tla:           *)
(*   Matches(p, t, inst)    applying inst (types and terms, as Term.subst does) to the pattern and  *)
(*                          normalising gives the target up to beta-eta (nameless terms: alpha = `=`)*)
(*   Extends(inst', inst0)  the returned instantiation extends and never alters the given one       *)
(*   FOPat(p)               no schematic variable in function position (matcher.is_fo_pattern)       *)
(*   FOMatchable(ps,ts,i0)  brute force: SOME extension of i0 by closed subterms of the targets and  *)
(*                          types occurring in them makes every pattern LITERALLY equal to its target*)
(* and a machine whose state space is the INPUT SPACE of first_order_match: one state per vector      *)
(* (pattern, target, given instantiation).  Patterns come from the typed generator (all well-typed    *)
(* terms with schematic variables up to a depth) plus deeper hand-picked shapes (Miller patterns under *)
(* 1-2 binders, nested binders, repeated variables, polymorphic patterns, non-pattern applications) and *)
(* all mixed-argument applications (a schematic head applied to every selection and order of distinct    *)
(* bound variables of 2-3 binders and first-order schematic variables, bare or guarded); targets are     *)
(* instances of the pattern under every small instantiation (positive by construction), the same       *)
(* before normalisation / eta-contracted / eta-expanded, every one-atom perturbation of them, and       *)
(* unrelated terms (also of other types); given instantiations are empty / parts of the generating one  *)
(* / its argument variables only / inconsistent with it / about other variables; every instance is     *)
(* also a ground pattern against itself.  (The replayer additionally builds every target with maximal   *)
(* sharing of equal sub-term objects: the outcome must depend on the term, not on the object graph.)    *)
(* Invariants (design level = sanity of the oracle that C09_MatcherTrace applies to the real code):    *)
(*   GenMatches   the generating instantiation Matches every target derived from it (beta and eta)      *)
(*   PosFOMatch   positives of first-order patterns are FOMatchable from every consistent seed          *)
(*   WitnessUnique every brute-force witness of a first-order positive extends the generating inst     *)
(*   BadSeedUnmatchable  a seed that binds a variable of the pattern differently has no witness         *)
(*   SelfMatch    every instance is a ground first-order pattern that matches itself                           *)
(*   NoSVarLeft / PerturbedDiffers  positives are closed instances; perturbed positives are really different  *)
(*   UniverseAdequate    the cheap candidate universe (subterms at the positions of the variable) gives the same witnesses *)
(*   WitnessesMatch      every brute-force witness Matches (literal equality implies beta-eta equality) *)
EXTENDS C09_MatchUniverse

\* ------------------------------------------------------------------ machine: the input space of first_order_match
\* a pattern is chosen, then one input vector for it; `wit` is the brute-force set of literal first-order witnesses of that input
VARIABLES pat, vec, wit, witAll, phase
vars == <<pat, vec, wit, witAll, phase>>
NoVec == V(vx, vx, EmptyInst, EmptyInst, "none", "empty")
Init == pat \in Patterns /\ vec = NoVec /\ wit = {} /\ witAll = {} /\ phase = "pattern"
Choose == /\ phase = "pattern" /\ phase' = "vector" /\ UNCHANGED pat
          /\ vec' \in VectorsOf(pat)
          /\ wit' = IF FOFragment(<<vec'.p>>) THEN FOWitnesses(<<vec'.p>>, <<vec'.t>>, vec'.s0) ELSE {}
          /\ witAll' = IF FOFragment(<<vec'.p>>) THEN FOWitnessesIn(<<vec'.p>>, <<vec'.t>>, vec'.s0, TRUE) ELSE {}
Next == Choose
Spec == Init /\ [][Next]_vars

ByConstruction == {"pos", "raw", "etac", "etax", "self"}
ConsistentSeeds == {"empty", "full", "extra", "ty", "sv1", "args"}
InFragment == phase = "vector" /\ FOFragment(<<vec.p>>)
WellFormed == WellTyped(vec.p) /\ WellTyped(vec.t) /\ SVarsConsistent(SVarsOf(vec.p)) /\ (phase = "vector" => (vec.p = pat \/ vec.kind = "self"))
GenMatches == vec.kind \in ByConstruction => Matches(vec.p, vec.t, vec.gi)
PosFOMatch == (vec.kind = "pos" /\ vec.seed \in ConsistentSeeds /\ InFragment) => wit # {}
\* every instance, taken as a ground pattern, is first-order matchable against itself (by the given, empty, instantiation)
SelfMatch == (phase = "vector" /\ vec.kind = "self") => (InFragment /\ wit = {EmptyInst})
WitnessUnique == (vec.kind = "pos" /\ InFragment) => \A w \in wit : Extends(w, vec.gi)
BadSeedUnmatchable == (vec.kind = "pos" /\ vec.seed \in {"bad_sv", "bad_ty"} /\ InFragment) => wit = {}
\* the generating instantiation binds every schematic variable of the pattern: no schematic variable is left in a target
NoSVarLeft == vec.kind \in ByConstruction => SVarsOf(vec.t) = {}
\* a one-atom perturbation of a beta-normal instance is a different term up to beta-eta: the generating instantiation no longer Matches
PerturbedDiffers == vec.kind = "neg" => ~Matches(vec.p, vec.t, vec.gi)
\* the positional candidate universe used on real events loses no witness with respect to all closed subterms
UniverseAdequate == wit = witAll
WitnessesMatch == InFragment => \A w \in wit : Matches(vec.p, vec.t, w) /\ Extends(w, vec.s0)
=============================================================================
