SPECIFICATION Spec
CONSTANTS
  MaxOps = 2
  ObjNames = {"T1", "S2", "L2", "I2"}
  CfgNames = {"ap", "ah", "uh"}
INVARIANT PrintStable
CHECK_DEADLOCK FALSE
