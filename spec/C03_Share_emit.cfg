SPECIFICATION Spec
CONSTANTS MaxObj = 5
 MaxHash = 1
 MaxInplace = 1
 NLeaves = 4
 Mode = "ref"
 Emit = TRUE
POSTCONDITION EmitPost
CHECK_DEADLOCK FALSE
