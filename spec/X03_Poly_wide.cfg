SPECIFICATION Spec
CONSTANTS MaxMono = 1
 CoefSet <- Coefs3
 MaxOps = 1
 MaxSize = 12
 InitP <- UniverseP
 InitQ <- QWide
 InitR <- RWide
 Gens <- GensSmall
 Scalars <- ScalarsSmall
 Kinds <- KindsLaws
 Record = FALSE
 EmitAll = FALSE
INVARIANT NormalForm
INVARIANT EvalCommutes
INVARIANT EvalDefined
INVARIANT RingLaws
INVARIANT SeqDenotes
CHECK_DEADLOCK FALSE
