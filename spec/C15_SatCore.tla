----------------------------- MODULE C15_SatCore -----------------------------
(* Vocabulary shared by the C15 specifications (S C15_Sat, I C15_SatImpl, T C15_SatTrace). *)
(*   literal : <<v, b>>   v a variable id (a natural number), b the sign                   *)
(*   clause  : a SEQUENCE of literals, exactly what prover/sat.py receives: duplicated and *)
(*             complementary literals may occur, the empty clause is <<>>                  *)
(*   cnf     : a sequence of clauses; the empty cnf is <<>>                                *)
(* Semantics by brute force, resolution on clause *sets*, and the certificate format of    *)
(* sat.solve_cnf: proofs = << <<id, <<id_1, ..., id_m>> >>, ... >>, ids 0-based, original   *)
(* clauses have ids 0..Len(cnf)-1, "learned clause id -> list of clause ids resolved".      *)
EXTENDS Integers, Sequences, FiniteSets, TLC

Neg(l) == <<l[1], ~l[2]>>
LitSet(c) == { c[i] : i \in 1..Len(c) }
VarsOfClause(c) == { c[i][1] : i \in 1..Len(c) }
VarsOf(cnf) == UNION { VarsOfClause(cnf[k]) : k \in 1..Len(cnf) }

\* ---------------------------------------------------------------- semantics (exhaustive search)
\* C : a set of literals;  m : a function defined at least on the variables of C
HoldsIn(C, m) == \E l \in C : m[l[1]] = l[2]
IsModel(cnf, m) == \A k \in 1..Len(cnf) : HoldsIn(LitSet(cnf[k]), m)
Models(cnf) == { m \in [VarsOf(cnf) -> BOOLEAN] : IsModel(cnf, m) }
Satisfiable(cnf) == \E m \in [VarsOf(cnf) -> BOOLEAN] : IsModel(cnf, m)

\* a PARTIAL assignment given as a sequence of <<v, b>> pairs (the dictionary solve_cnf returns):
\* functional, and every clause contains a literal that the assignment makes true
AsgFunctional(a) == \A i, j \in 1..Len(a) : a[i][1] = a[j][1] => a[i][2] = a[j][2]
AsgSatisfies(cnf, a) == LET A == { a[i] : i \in 1..Len(a) } IN \A k \in 1..Len(cnf) : LitSet(cnf[k]) \cap A # {}

\* ---------------------------------------------------------------- resolution (on clause sets)
\* C, D : sets of literals.  A resolution step needs a complementary pair  l \in C, ~l \in D.
Pivots(C, D) == { l \in C : Neg(l) \in D }
Resolve(C, D, l) == (C \ {l}) \cup (D \ {Neg(l)})
Resolvents(C, D) == { Resolve(C, D, l) : l \in Pivots(C, D) }
\* successive resolution: cur = set of clauses obtainable so far, pss[i] = set of possible readings of the i-th named clause.
\* (More than one reading arises only when two complementary pairs are available at a step -- never in a trace of a
\*  CDCL run.  More than MaxReadings readings: the replay is given up and the trace counted as undecided, not as invalid.)
MaxReadings == 16
TooMany == { {<<0, TRUE>>, <<0, FALSE>>} }       \* marker value of the same kind as a set of clauses
RECURSIVE ChainFrom(_, _, _)
ChainFrom(cur, pss, i) ==
  IF i > Len(pss) \/ cur = {} \/ cur = TooMany THEN cur
  ELSE LET nxt == UNION { UNION { Resolvents(C, D) : D \in pss[i] } : C \in cur } IN
       IF pss[i] = TooMany \/ Cardinality(nxt) > MaxReadings THEN TooMany ELSE ChainFrom(nxt, pss, i + 1)
\* the clauses obtainable from the named clauses by successive resolution on a complementary pair ({} = not obtainable)
ChainResolve(pss) == IF Len(pss) = 0 THEN {} ELSE ChainFrom(pss[1], pss, 2)

\* known : function  clause id -> set of clauses that id may denote
Originals(cnf) == [ id \in 0..(Len(cnf) - 1) |-> { LitSet(cnf[id + 1]) } ]
NoClauses == {}
RECURSIVE Replay(_, _, _)
\* returns [ok, undecided, known, last]: ok = every learned clause was obtained from the clauses it names;
\* last = readings of the last one
Replay(proofs, j, acc) ==
  IF j > Len(proofs) THEN acc
  ELSE LET id == proofs[j][1]
           steps == proofs[j][2] IN
       IF id \in DOMAIN acc.known \/ Len(steps) = 0 \/ (\E s \in 1..Len(steps) : steps[s] \notin DOMAIN acc.known)
       THEN [ok |-> FALSE, undecided |-> FALSE, known |-> acc.known, last |-> NoClauses]
       ELSE LET res == ChainResolve([s \in 1..Len(steps) |-> acc.known[steps[s]]]) IN
            IF res = {} THEN [ok |-> FALSE, undecided |-> FALSE, known |-> acc.known, last |-> NoClauses]
            ELSE IF res = TooMany THEN [ok |-> FALSE, undecided |-> TRUE, known |-> acc.known, last |-> NoClauses]
            ELSE Replay(proofs, j + 1, [ok |-> TRUE, undecided |-> FALSE, known |-> (id :> res) @@ acc.known, last |-> res])
ReplayAll(cnf, proofs) == Replay(proofs, 1, [ok |-> TRUE, undecided |-> FALSE, known |-> Originals(cnf), last |-> NoClauses])
\* "a resolution trace in which each learned clause is obtained from the named clauses by resolution
\*  and the last one is empty"
ValidRefutation(cnf, proofs) ==
  /\ Len(proofs) > 0
  /\ LET r == ReplayAll(cnf, proofs) IN r.ok /\ ({} \in r.last)
RefutationUndecided(cnf, proofs) == Len(proofs) > 0 /\ ReplayAll(cnf, proofs).undecided
=============================================================================
