SPECIFICATION Spec
CONSTANTS MaxSize = 1
 MaxSteps = 0
 NV = 4
 MaxAtoms = 4
 AtomKinds = {"A", "L"}
 LongKinds = {"A", "L", "E"}
 ShortKinds = {}
 ShortLen = 0
 DeclAtoms = 2
 Variants <- VariantsQuick
 ExactOccursCheck = TRUE
 AnnotVarCheck = TRUE
 WithModel = FALSE
INVARIANT TypedOK
INVARIANT ContractSane
INVARIANT Record
POSTCONDITION Post
CHECK_DEADLOCK FALSE
