SPECIFICATION Spec
CONSTANTS MaxOps = 2
 MaxLines = 14
 MaxPrevs = 3
 Shape = 1
 Record = TRUE
 EmitAll = TRUE
INVARIANT Contiguous
INVARIANT CitationsTrackItems
INVARIANT NoDangling
INVARIANT UidsDistinct
CHECK_DEADLOCK FALSE
