------------------------------ MODULE C10_Rearr ------------------------------
(* S-specification for C10: the REARRANGEMENT MACHINE.                                                  *)
(*   state   : mode  -- "arith" | "conj" | "disj" | "nnf"                                                *)
(*             ty    -- "nat" | "ring" (int and real: the types with a ring subtraction) | "bool"        *)
(*             cls   -- the class of the orbit, fixed when the orbit starts: the polynomial (arith), the *)
(*                      member set (conj, disj), the starting formula (nnf)                              *)
(*             e     -- the current expression (abstract syntax of C10_Laws)                             *)
(*   actions : at any position reachable through arithmetic (resp. /\ , \/ , ~) operators:               *)
(*             Comm, Assoc (both ways), Distrib (left/right), Factor (left/right), AddZero / DropZero,   *)
(*             MulOne / DropOne, FoldNum / SplitNum, SucPlus, SubNeg / NegMul / NegNeg / NegAdd (ring    *)
(*             only: truncated subtraction on nat is an opaque atom and no action looks inside it),      *)
(*             PowUnfold / PowFold (ring only), Dup / Dedup (conj, disj), DeMorgan / DNeg (nnf)          *)
(*   property: every action preserves the polynomial PolyOf(e) (arith), the member set and the truth     *)
(*             table (conj / disj), the truth table (nnf)                                                *)
(* TLC explores the orbits of the seeds (all +,* trees with at most SeedLeaves leaves, plus hand-picked  *)
(* seeds with - uminus ^ Suc and opaque atoms) as the reachable state space; the dump of the reachable   *)
(* states (-dump) is the vector file: the members of one orbit are the states with the same (mode,ty,cls).*)
EXTENDS C10_Laws

CONSTANTS SeedLeaves,     \* arithmetic seeds: +,* trees with at most this many leaves
          MaxLeaves,      \* growth of arithmetic states stops at this many leaves
          PropMembers,    \* conj/disj seeds: member sets of at most this size
          MaxMembers,     \* conj/disj states have at most this many leaves
          MaxNnfSize,     \* growth of nnf states stops at this size
          MaxNum,         \* numerals created by FoldNum stay below this
          Rich            \* more literals / special seeds

N0 == <<"n", 0>>   N1 == <<"n", 1>>
\* ------------------------------------------------------------------ arithmetic actions at the root of t
PlusRoot(t, ring) ==
  LET a == t[2] b == t[3] IN
     { <<"+", b, a>> }                                                                                   \* Comm
  \cup (IF b[1] = "+" THEN { <<"+", <<"+", a, b[2]>>, b[3]>> } ELSE {})                                 \* Assoc
  \cup (IF a[1] = "+" THEN { <<"+", a[2], <<"+", a[3], b>> >> } ELSE {})
  \cup (IF a[1] = "*" /\ b[1] = "*" /\ a[2] = b[2] THEN { <<"*", a[2], <<"+", a[3], b[3]>> >> } ELSE {})   \* Factor
  \cup (IF a[1] = "*" /\ b[1] = "*" /\ a[3] = b[3] THEN { <<"*", <<"+", a[2], b[2]>>, a[3]>> } ELSE {})
  \cup (IF b = N0 THEN {a} ELSE {}) \cup (IF a = N0 THEN {b} ELSE {})                                  \* DropZero
  \cup (IF a[1] = "n" /\ b[1] = "n" THEN { <<"n", a[2] + b[2]>> } ELSE {})                              \* FoldNum
  \cup (IF ~ring /\ b = N1 THEN { <<"S", a>> } ELSE {})                                                 \* SucPlus
  \cup (IF ring /\ b[1] = "neg" THEN { <<"-", a, b[2]>> } ELSE {})                                      \* SubNeg
TimesRoot(t, ring) ==
  LET a == t[2] b == t[3] IN
     { <<"*", b, a>> }
  \cup (IF b[1] = "*" THEN { <<"*", <<"*", a, b[2]>>, b[3]>> } ELSE {})
  \cup (IF a[1] = "*" THEN { <<"*", a[2], <<"*", a[3], b>> >> } ELSE {})
  \cup (IF b[1] = "+" THEN { <<"+", <<"*", a, b[2]>>, <<"*", a, b[3]>> >> } ELSE {})                    \* Distrib
  \cup (IF a[1] = "+" THEN { <<"+", <<"*", a[2], b>>, <<"*", a[3], b>> >> } ELSE {})
  \cup (IF b = N1 THEN {a} ELSE {}) \cup (IF a = N1 THEN {b} ELSE {})                                  \* DropOne
  \cup (IF a[1] = "n" /\ b[1] = "n" THEN { <<"n", a[2] * b[2]>> } ELSE {})
  \cup (IF ring /\ a = <<"neg", N1>> THEN { <<"neg", b>> } ELSE {})                                     \* NegMul
  \cup (IF ring /\ a = b THEN { <<"^", a, 2>> } ELSE {})                                                \* PowFold
  \cup (IF ring /\ a[1] = "^" /\ a[2] = b /\ a[3] < MaxExp THEN { <<"^", b, a[3] + 1>> } ELSE {})
ArithRoot(t, ring) ==
     (IF t[1] = "+" THEN PlusRoot(t, ring) ELSE {})
  \cup (IF t[1] = "*" THEN TimesRoot(t, ring) ELSE {})
  \cup { <<"+", t, N0>>, <<"*", t, N1>> }                                                                \* AddZero, MulOne
  \cup (IF t[1] = "n" /\ t[2] >= 2 THEN { <<"+", <<"n", t[2] - 1>>, N1>> } ELSE {})                      \* SplitNum
  \cup (IF t[1] = "S" THEN { <<"+", t[2], N1>> } ELSE {})
  \cup (IF t[1] = "-" THEN { <<"+", t[2], <<"neg", t[3]>> >> } ELSE {})
  \cup (IF t[1] = "neg" /\ t[2][1] # "n" THEN { <<"*", <<"neg", N1>>, t[2]>> } ELSE {})
  \cup (IF t[1] = "neg" /\ t[2][1] = "neg" THEN { t[2][2] } ELSE {})                                     \* NegNeg
  \cup (IF t[1] = "neg" /\ t[2][1] = "+" THEN { <<"+", <<"neg", t[2][2]>>, <<"neg", t[2][3]>> >> } ELSE {})
  \cup (IF t[1] = "^" /\ t[3] >= 2 THEN { <<"*", <<"^", t[2], t[3] - 1>>, t[2]>> } ELSE {})             \* PowUnfold
  \cup (IF t[1] = "^" /\ t[3] = 1 THEN { t[2] } ELSE {})
  \cup (IF t[1] = "^" /\ t[3] = 0 THEN { N1 } ELSE {})                                                   \* PowZero
RECURSIVE ArithSteps(_,_)
ArithSteps(t, ring) ==
  ArithRoot(t, ring) \cup
  (CASE Bin2(t) -> { <<t[1], s, t[3]>> : s \in ArithSteps(t[2], ring) } \cup { <<t[1], t[2], s>> : s \in ArithSteps(t[3], ring) }
     [] t[1] = "S" \/ (t[1] = "neg" /\ t[2][1] # "n") -> { <<t[1], s>> : s \in ArithSteps(t[2], ring) }
     [] t[1] = "^" -> { <<"^", s, t[3]>> : s \in ArithSteps(t[2], ring) }
     [] OTHER -> {})

\* ------------------------------------------------------------------ conjunction / disjunction actions (c = "and" or "or")
ACRoot(t, c) ==
  { <<c, t, t>> }                                                                                        \* Dup
  \cup (IF t[1] = c THEN
          LET a == t[2] b == t[3] IN
             { <<c, b, a>> }
          \cup (IF b[1] = c THEN { <<c, <<c, a, b[2]>>, b[3]>> } ELSE {})
          \cup (IF a[1] = c THEN { <<c, a[2], <<c, a[3], b>> >> } ELSE {})
          \cup (IF a = b THEN {a} ELSE {})                                                               \* Dedup
        ELSE {})
RECURSIVE ACSteps(_,_), ACLeaves(_,_)
ACSteps(t, c) == ACRoot(t, c) \cup
  (IF t[1] = c THEN { <<c, s, t[3]>> : s \in ACSteps(t[2], c) } \cup { <<c, t[2], s>> : s \in ACSteps(t[3], c) } ELSE {})
ACLeaves(t, c) == IF t[1] = c THEN ACLeaves(t[2], c) + ACLeaves(t[3], c) ELSE 1

\* ------------------------------------------------------------------ negation actions
Not(a) == <<"not", a>>
NnfRoot(t) ==
  { Not(Not(t)) }
  \cup (IF t[1] = "not" /\ t[2][1] = "not" THEN { t[2][2] } ELSE {})
  \cup (IF t[1] = "not" /\ t[2][1] = "and" THEN { <<"or", Not(t[2][2]), Not(t[2][3])>> } ELSE {})
  \cup (IF t[1] = "not" /\ t[2][1] = "or" THEN { <<"and", Not(t[2][2]), Not(t[2][3])>> } ELSE {})
  \cup (IF t[1] = "or" /\ t[2][1] = "not" /\ t[3][1] = "not" THEN { Not(<<"and", t[2][2], t[3][2]>>) } ELSE {})
  \cup (IF t[1] = "and" /\ t[2][1] = "not" /\ t[3][1] = "not" THEN { Not(<<"or", t[2][2], t[3][2]>>) } ELSE {})
RECURSIVE NnfSteps(_)
NnfSteps(t) == NnfRoot(t) \cup
  (CASE t[1] \in {"and", "or"} -> { <<t[1], s, t[3]>> : s \in NnfSteps(t[2]) } \cup { <<t[1], t[2], s>> : s \in NnfSteps(t[3]) }
     [] t[1] = "not" -> { Not(s) : s \in NnfSteps(t[2]) }
     [] OTHER -> {})

\* ------------------------------------------------------------------ one step of the machine (growth is size-bounded)
RECURSIVE MaxNumOf(_)
MaxNumOf(x) == CASE x[1] = "n" -> x[2]
                 [] Bin2(x) -> (LET a == MaxNumOf(x[2]) b == MaxNumOf(x[3]) IN IF a > b THEN a ELSE b)
                 [] x[1] \in {"neg", "^", "S"} -> MaxNumOf(x[2])
                 [] OTHER -> 0
Steps(m, T, x) ==
  CASE m = "arith" -> LET n == LeafCount(x) k == MaxNumOf(x) IN
                      { y \in ArithSteps(x, T = "ring") : (LeafCount(y) <= MaxLeaves \/ LeafCount(y) <= n) /\ (MaxNumOf(y) <= MaxNum \/ MaxNumOf(y) <= k) }
    [] m = "conj" -> { y \in ACSteps(x, "and") : ACLeaves(y, "and") <= MaxMembers \/ ACLeaves(y, "and") <= ACLeaves(x, "and") }
    [] m = "disj" -> { y \in ACSteps(x, "or") : ACLeaves(y, "or") <= MaxMembers \/ ACLeaves(y, "or") <= ACLeaves(x, "or") }
    [] m = "nnf" -> { y \in NnfSteps(x) : PSize(y) <= MaxNnfSize \/ PSize(y) <= PSize(x) }

\* ------------------------------------------------------------------ seeds
vx == <<"v", "x">>  vy == <<"v", "y">>  vz == <<"v", "z">>
ArithLeaves == { vx, vy, N0, N1, <<"n", 2>> }
RECURSIVE Trees(_)
Trees(n) == IF n = 1 THEN ArithLeaves
            ELSE UNION { { <<c, a, b>> : c \in {"+", "*"}, a \in Trees(k), b \in Trees(n - k) } : k \in 1..(n - 1) }
TSub(a, b) == <<"o", <<"tsub", a, b>> >>
Special(T) ==
  IF T = "nat" THEN { <<"+", <<"S", vx>>, vy>>, <<"*", vx, <<"S", vy>> >>, <<"S", <<"S", vx>> >>,
                      <<"+", TSub(vx, vy), vz>>, <<"*", TSub(vx, vy), <<"+", vx, N1>> >>, <<"+", TSub(vx, vy), TSub(vx, vy)>> }
                    \cup (IF Rich THEN { <<"*", <<"S", vx>>, <<"S", vy>> >>, <<"+", <<"*", TSub(vx, vy), vz>>, vx>> } ELSE {})
  ELSE { <<"-", vx, vy>>, <<"-", vx, <<"-", vy, vx>> >>, <<"neg", <<"+", vx, vy>> >>, <<"-", vx, vx>>,
         <<"*", <<"-", vx, vy>>, <<"+", vx, vy>> >>, <<"+", <<"*", vx, vx>>, vx>>, <<"*", <<"^", vx, 2>>, vx>>,
         <<"+", <<"^", vx, 2>>, <<"*", <<"n", 2>>, vx>> >>, <<"^", <<"+", vx, vy>>, 2>>, <<"+", <<"^", vx, 2>>, <<"+", vx, vy>> >> }
       \* CANCELLING members: a monomial added and subtracted (SubNeg / Comm / Assoc move the two to every position), the smallest, a
       \* larger, a product, a coefficient; powers with exponents 0, 1, 2 over bases that cancel to 0 or to a constant (or do not)
       \cup { <<"-", <<"+", vx, vy>>, vx>>, <<"-", <<"+", vx, vy>>, vy>>, <<"-", <<"+", <<"+", vx, vy>>, vz>>, vx>>,
              <<"-", <<"+", <<"*", vx, vy>>, vx>>, <<"*", vx, vy>> >>, <<"-", <<"*", <<"n", 2>>, vx>>, vx>>, <<"+", <<"-", vx, vx>>, N1>>,
              <<"^", <<"-", vx, vx>>, 0>>, <<"^", <<"-", vx, vx>>, 1>>, <<"^", <<"-", vx, vx>>, 2>>, <<"^", <<"-", <<"+", vx, N1>>, vx>>, 0>>,
              <<"^", <<"-", <<"+", vx, N1>>, vx>>, 2>>, <<"^", vx, 0>>, <<"^", vx, 1>>, <<"^", <<"+", vx, vy>>, 0>>, <<"^", N0, 0>>,
              <<"+", <<"^", <<"-", vx, vx>>, 0>>, vy>> }
       \cup (IF Rich THEN { <<"-", <<"*", vx, vy>>, <<"*", vy, vx>> >>, <<"*", <<"+", vx, N1>>, <<"-", vx, N1>> >>,
                            <<"+", <<"*", vx, <<"*", vx, vy>> >>, <<"*", vx, vy>> >>, <<"neg", <<"-", vx, <<"neg", vy>> >> >>,
                            <<"^", <<"+", vx, N1>>, 3>>, <<"*", <<"^", <<"+", vx, vy>>, 2>>, vx>> } ELSE {})
ArithSeeds(T) == UNION { Trees(n) : n \in 1..SeedLeaves } \cup Special(T)

bA == <<"v", "A">>  bB == <<"v", "B">>  bC == <<"v", "C">>
\* literals over two atoms WITH BOTH NEGATIONS (a complementary pair on the smallest atom and one on a non-smallest atom), true, false
Lits == { bA, bB, Not(bA), Not(bB), <<"T">>, <<"F">> } \cup (IF Rich THEN { bC, Not(bC), <<"imp", bA, bB>>, <<"or", bA, bC>> } ELSE {})
\* members that are APPLICATIONS (a comparison, an equation between applications, a predicate of an application): opaque atoms that
\* carry the HOL term itself (codec encoding), exactly what FromHolP gives for them.  They are larger than true / false / a variable
\* in the term order, which Boolean-variable members never are.
hx == <<"var", "x", NatT>>  hy == <<"var", "y", NatT>>  hf == <<"var", "f", FunT(NatT, NatT)>>  hP == <<"var", "P", FunT(NatT, BoolT)>>
Hol(t) == <<"o", <<"hol", t>> >>
aLt == Hol(App(App(<<"const", "less", F2(NatT, NatT, BoolT)>>, hx), hy))     \* x < y
aEq == Hol(App(App(EqC(NatT), App(hf, hx)), hy))                              \* f x = y
aP == Hol(App(hP, App(hf, hy)))                                                \* P (f y)
\* a member of a disjunction is not itself a disjunction
Pool(c) == IF c = "or" THEN Lits \ { <<"or", bA, bC>> } ELSE Lits
\* one chain per member set (in the order TLC enumerates the set); the other arrangements are reached by the actions
RECURSIVE Chain(_,_)
Chain(c, M) == IF Cardinality(M) = 1 THEN CHOOSE m \in M : TRUE
               ELSE LET m == CHOOSE y \in M : TRUE IN <<c, m, Chain(c, M \ {m})>>
MemberSets(c) == { M \in SUBSET Pool(c) : Cardinality(M) >= 1 /\ Cardinality(M) <= PropMembers }
\* wide seeds: 3-4 members (sequences: a member may be repeated) over three atoms and their negations, chosen so that a complementary
\* pair sits on the smallest, a middle and the largest atom, alone or with a second pair, with true / false / a compound member, and
\* with a duplicated member.  Steps that do not grow are always allowed: EVERY order and bracketing of each is explored.
WideSeqs == { <<bA, bB, Not(bB)>>, <<bA, bB, Not(bB), bC>>, <<bA, Not(bA), bB, Not(bB)>>, <<bA, bB, bC, Not(bC)>>, <<bA, Not(bA), bB, bC>>,
              <<bA, bB, Not(bB), <<"T">> >>, <<bA, bB, Not(bB), <<"F">> >>, <<bA, bB, Not(bB), bB>>, <<bA, bA, bB, Not(bB)>>,
              <<bA, Not(bB), bB, Not(bB)>>, << <<"imp", bA, bB>>, bA, Not(bB)>>, << <<"imp", bA, bB>>, bB, Not(bB), bA>>,
              <<bB, Not(bC), bC>>, <<Not(bA), bB, Not(bB), bC>>,
              \* application members with the units true / false (every position: all orders and bracketings are reached)
              << <<"T">>, aLt, aEq>>, << <<"F">>, aLt, aEq>>, << <<"T">>, <<"F">>, aLt>>, <<aLt, aEq, aP>>, <<bA, aLt, <<"T">> >>,
              <<bA, aLt, <<"F">> >>, <<aLt, Not(aLt), aEq>>, << <<"T">>, Not(aLt), aP>>, << <<"F">>, Not(aLt), Not(aEq)>>,
              << <<"T">>, aLt, aEq, aP>>, << <<"F">>, aLt, aEq, bA>>, << <<"T">>, <<"F">>, aLt, aEq>>, <<aLt, aEq, Not(aEq), <<"T">> >> }
RECURSIVE ChainSeq(_,_)
ChainSeq(c, q) == IF Len(q) = 1 THEN q[1] ELSE <<c, q[1], ChainSeq(c, Tail(q))>>
NnfSeeds == { Not(<<"or", <<"F">>, <<"or", aLt, aEq>> >>), Not(<<"and", <<"T">>, <<"and", aLt, Not(aEq)>> >>), Not(<<"and", bA, bB>>), Not(<<"or", bA, Not(bB)>>), Not(Not(bA)), Not(<<"and", bA, <<"or", bB, bA>> >>),
              <<"and", Not(<<"or", bA, bB>>), bA>>, Not(<<"T">>), <<"or", Not(<<"F">>), bA>> }
            \cup (IF Rich THEN { Not(<<"and", <<"or", bA, bB>>, Not(bC)>>), Not(<<"or", <<"and", bA, bB>>, <<"and", Not(bA), bC>> >>),
                                 Not(<<"and", <<"imp", bA, bB>>, bA>>) } ELSE {})
SeedSet == { <<"arith", "nat", s>> : s \in ArithSeeds("nat") } \cup { <<"arith", "ring", s>> : s \in ArithSeeds("ring") }
           \cup { <<"conj", "bool", Chain("and", M)>> : M \in MemberSets("and") } \cup { <<"disj", "bool", Chain("or", M)>> : M \in MemberSets("or") }
           \cup { <<"conj", "bool", ChainSeq("and", q)>> : q \in WideSeqs } \cup { <<"disj", "bool", ChainSeq("or", q)>> : q \in WideSeqs }
           \cup { <<"nnf", "bool", s>> : s \in NnfSeeds }
ClassOf(m, x) == CASE m = "arith" -> PolyOf(x) [] m = "conj" -> MemberSet(x, "and") [] m = "disj" -> MemberSet(x, "or") [] m = "nnf" -> {x}

\* ------------------------------------------------------------------ the machine
VARIABLES mode, ty, cls, e
vars == <<mode, ty, cls, e>>
Init == \E p \in SeedSet : mode = p[1] /\ ty = p[2] /\ e = p[3] /\ cls = ClassOf(p[1], p[3])
Next == /\ e' \in Steps(mode, ty, e)
        /\ UNCHANGED <<mode, ty, cls>>
Spec == Init /\ [][Next]_vars

\* ------------------------------------------------------------------ properties
\* well-formedness of the abstract syntax at the state's type: ring operators only at "ring", Suc and truncated subtraction only at "nat"
RECURSIVE WfA(_,_), WfP(_)
WfA(x, ring) == CASE x[1] = "v" -> TRUE [] x[1] = "n" -> x[2] >= 0
                  [] x[1] \in {"+", "*"} -> WfA(x[2], ring) /\ WfA(x[3], ring)
                  [] x[1] = "-" -> ring /\ WfA(x[2], ring) /\ WfA(x[3], ring)
                  [] x[1] = "neg" -> ring /\ WfA(x[2], ring)
                  [] x[1] = "^" -> ring /\ x[3] >= 0 /\ x[3] <= MaxExp /\ WfA(x[2], ring)
                  [] x[1] = "S" -> ~ring /\ WfA(x[2], ring)
                  [] x[1] = "o" -> ~ring /\ x[2][1] = "tsub"
                  [] OTHER -> FALSE
WfP(x) == CASE x[1] \in {"v", "T", "F"} -> TRUE [] x[1] = "not" -> WfP(x[2]) [] PBin(x) -> WfP(x[2]) /\ WfP(x[3])
            [] x[1] = "o" -> x[2][1] = "hol" /\ TypeOf(x[2][2], <<>>) = BoolT /\ FromHolP(x[2][2]) = x [] OTHER -> FALSE
TypeInv == /\ mode \in {"arith", "conj", "disj", "nnf"}
           /\ (mode = "arith") => ty \in {"nat", "ring"} /\ WfA(e, ty = "ring")
           /\ (mode # "arith") => ty = "bool" /\ WfP(e)
PolyPreserved == mode = "arith" => PolyExaminable(e) /\ PolyOf(e) = cls
MembersPreserved == /\ mode = "conj" => MemberSet(e, "and") = cls
                    /\ mode = "disj" => MemberSet(e, "or") = cls
\* the truth table is a function of the class
RECURSIVE FoldSet(_,_,_)
FoldSet(c, M, unit) == IF M = {} THEN unit ELSE LET m == CHOOSE y \in M : TRUE IN <<c, m, FoldSet(c, M \ {m}, unit)>>
ClassFormula == CASE mode = "conj" -> FoldSet("and", cls, <<"T">>) [] mode = "disj" -> FoldSet("or", cls, <<"F">>)
                  [] mode = "nnf" -> CHOOSE x \in cls : TRUE [] OTHER -> <<"T">>
TablePreserved == mode # "arith" => PropExaminable(e, ClassFormula) /\ SameTable(e, ClassFormula)
\* no action of the machine looks inside an opaque atom
AtomsPreserved == mode = "arith" => \A a \in AtomsOf(e) : a[1] = "v" \/ a \in UNION { MAtoms(m) : m \in Monos(cls) }
=============================================================================
