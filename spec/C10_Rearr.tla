------------------------------ MODULE C10_Rearr ------------------------------
(* S-specification for C10: the REARRANGEMENT MACHINE.                                                  *)
(*   state   : mode  -- "arith" | "conj" | "disj" | "nnf"                                                *)
(*             seed  -- the expression the orbit started from (HOL term, codec encoding); its type is    *)
(*                      nat, int or real for "arith" and bool otherwise                                  *)
(*             e     -- the current rearrangement of seed                                                *)
(*   actions : at any position reachable through arithmetic (resp. /\ , \/ , ~) operators:               *)
(*             Comm, Assoc (both ways), Distrib (left/right), Factor (left/right), AddZero / DropZero,   *)
(*             MulOne / DropOne, FoldNum / SplitNum, SucPlus, SubNeg / NegMul / NegNeg / NegAdd (types   *)
(*             with a ring subtraction only: truncated subtraction on nat is an opaque atom and no       *)
(*             action looks inside it), PowUnfold / PowFold, Dup / Dedup (conj, disj), DeMorgan / DNeg   *)
(*   property: every action preserves the polynomial PolyOf(e) (arith), the member set and the truth     *)
(*             table (conj / disj), the truth table (nnf); every state is well-typed at the seed's type  *)
(* TLC explores the orbits of the seeds (one representative per polynomial among all +,* trees with at   *)
(* most SeedLeaves leaves, plus hand-picked seeds with - uminus ^ Suc and opaque atoms) as the reachable *)
(* state space.  C10_RearrEmit computes the same orbits as closures and writes them as vectors.          *)
EXTENDS C10_Laws

CONSTANTS SeedLeaves,     \* arithmetic seeds: +,* trees with at most this many leaves
          MaxLeaves,      \* arithmetic states have at most this many leaves
          PropMembers,    \* conj/disj seeds: member sets of at most this size
          MaxMembers,     \* conj/disj states have at most this many leaves
          MaxNnfSize,     \* nnf states have at most this term size
          Rich            \* more leaves / literals / special seeds

\* ------------------------------------------------------------------ constructors
V(n, T) == <<"var", n, T>>
Plus(T, a, b) == Op2(PlusC(T), a, b)
Times(T, a, b) == Op2(TimesC(T), a, b)
Minus(T, a, b) == Op2(MinusC(T), a, b)
Um(T, a) == Op1(UminusC(T), a)
PowN(T, a, k) == Op2(PowerC(T), a, Num(NatT, k))
Suc(a) == Op1(SucC, a)
Conj(a, b) == Op2(ConjC, a, b)
Disj(a, b) == Op2(DisjC, a, b)

\* ------------------------------------------------------------------ arithmetic actions at the root of t (t has type T)
PlusRoot(t, T) ==
  LET a == A1(t) b == A2(t) IN
     { Plus(T, b, a) }                                                                                   \* Comm
  \cup (IF IsOp2(b, PlusC(T)) THEN { Plus(T, Plus(T, a, A1(b)), A2(b)) } ELSE {})                       \* Assoc
  \cup (IF IsOp2(a, PlusC(T)) THEN { Plus(T, A1(a), Plus(T, A2(a), b)) } ELSE {})
  \cup (IF IsOp2(a, TimesC(T)) /\ IsOp2(b, TimesC(T)) /\ A1(a) = A1(b) THEN { Times(T, A1(a), Plus(T, A2(a), A2(b))) } ELSE {})   \* Factor
  \cup (IF IsOp2(a, TimesC(T)) /\ IsOp2(b, TimesC(T)) /\ A2(a) = A2(b) THEN { Times(T, Plus(T, A1(a), A1(b)), A2(a)) } ELSE {})
  \cup (IF b = ZeroC(T) THEN {a} ELSE {}) \cup (IF a = ZeroC(T) THEN {b} ELSE {})                      \* DropZero
  \cup (IF IsNum(a, T) /\ IsNum(b, T) THEN { Num(T, NumVal(a, T) + NumVal(b, T)) } ELSE {})              \* FoldNum
  \cup (IF T = NatT /\ b = OneC(T) THEN { Suc(a) } ELSE {})                                             \* SucPlus
  \cup (IF HasSub(T) /\ IsOp1(b, UminusC(T)) THEN { Minus(T, a, b[3]) } ELSE {})                        \* SubNeg
TimesRoot(t, T) ==
  LET a == A1(t) b == A2(t) IN
     { Times(T, b, a) }
  \cup (IF IsOp2(b, TimesC(T)) THEN { Times(T, Times(T, a, A1(b)), A2(b)) } ELSE {})
  \cup (IF IsOp2(a, TimesC(T)) THEN { Times(T, A1(a), Times(T, A2(a), b)) } ELSE {})
  \cup (IF IsOp2(b, PlusC(T)) THEN { Plus(T, Times(T, a, A1(b)), Times(T, a, A2(b))) } ELSE {})         \* Distrib
  \cup (IF IsOp2(a, PlusC(T)) THEN { Plus(T, Times(T, A1(a), b), Times(T, A2(a), b)) } ELSE {})
  \cup (IF b = OneC(T) THEN {a} ELSE {}) \cup (IF a = OneC(T) THEN {b} ELSE {})                        \* DropOne
  \cup (IF IsNum(a, T) /\ IsNum(b, T) THEN { Num(T, NumVal(a, T) * NumVal(b, T)) } ELSE {})
  \cup (IF HasSub(T) /\ a = Num(T, 0 - 1) THEN { Um(T, b) } ELSE {})                                    \* NegMul
  \cup (IF T # NatT /\ a = b THEN { PowN(T, a, 2) } ELSE {})                                            \* PowFold
  \cup (IF T # NatT /\ IsPow(a, T) /\ IsNum(A2(a), NatT) /\ A1(a) = b /\ NumVal(A2(a), NatT) < MaxExp
        THEN { PowN(T, b, NumVal(A2(a), NatT) + 1) } ELSE {})
ArithRoot(t, T) ==
     (IF IsOp2(t, PlusC(T)) THEN PlusRoot(t, T) ELSE {})
  \cup (IF IsOp2(t, TimesC(T)) THEN TimesRoot(t, T) ELSE {})
  \cup { Plus(T, t, ZeroC(T)), Times(T, t, OneC(T)) }                                                    \* AddZero, MulOne
  \cup (IF IsNum(t, T) /\ NumVal(t, T) >= 2 THEN { Plus(T, Num(T, NumVal(t, T) - 1), OneC(T)) } ELSE {})  \* SplitNum
  \cup (IF T = NatT /\ IsOp1(t, SucC) THEN { Plus(T, t[3], OneC(T)) } ELSE {})
  \cup (IF HasSub(T) /\ IsOp2(t, MinusC(T)) THEN { Plus(T, A1(t), Um(T, A2(t))) } ELSE {})
  \cup (IF HasSub(T) /\ IsOp1(t, UminusC(T)) /\ ~IsNum(t[3], T) THEN { Times(T, Num(T, 0 - 1), t[3]) } ELSE {})
  \cup (IF HasSub(T) /\ IsOp1(t, UminusC(T)) /\ IsOp1(t[3], UminusC(T)) THEN { t[3][3] } ELSE {})       \* NegNeg
  \cup (IF HasSub(T) /\ IsOp1(t, UminusC(T)) /\ IsOp2(t[3], PlusC(T)) THEN { Plus(T, Um(T, A1(t[3])), Um(T, A2(t[3]))) } ELSE {})
  \cup (IF IsPow(t, T) /\ IsNum(A2(t), NatT) /\ NumVal(A2(t), NatT) >= 2
        THEN { Times(T, PowN(T, A1(t), NumVal(A2(t), NatT) - 1), A1(t)) } ELSE {})                       \* PowUnfold
  \cup (IF IsPow(t, T) /\ A2(t) = OneC(NatT) THEN { A1(t) } ELSE {})
RECURSIVE ArithSteps(_,_)
ArithSteps(t, T) ==
  ArithRoot(t, T) \cup
  (IF IsOp2(t, PlusC(T)) \/ IsOp2(t, TimesC(T)) \/ (HasSub(T) /\ IsOp2(t, MinusC(T)))
   THEN { Op2(t[2][2], s, A2(t)) : s \in ArithSteps(A1(t), T) } \cup { Op2(t[2][2], A1(t), s) : s \in ArithSteps(A2(t), T) }
   ELSE IF (HasSub(T) /\ IsOp1(t, UminusC(T)) /\ ~IsNum(t[3], T)) \/ (T = NatT /\ IsOp1(t, SucC))
   THEN { Op1(t[2], s) : s \in ArithSteps(t[3], T) }
   ELSE IF IsPow(t, T) THEN { Op2(PowerC(T), s, A2(t)) : s \in ArithSteps(A1(t), T) }
   ELSE {})

\* ------------------------------------------------------------------ conjunction / disjunction actions (c = ConjC or DisjC)
ACRoot(t, c) ==
  { Op2(c, t, t) }                                                                                       \* Dup
  \cup (IF IsOp2(t, c) THEN
          LET a == A1(t) b == A2(t) IN
             { Op2(c, b, a) }
          \cup (IF IsOp2(b, c) THEN { Op2(c, Op2(c, a, A1(b)), A2(b)) } ELSE {})
          \cup (IF IsOp2(a, c) THEN { Op2(c, A1(a), Op2(c, A2(a), b)) } ELSE {})
          \cup (IF a = b THEN {a} ELSE {})                                                               \* Dedup
        ELSE {})
RECURSIVE ACSteps(_,_), ACLeaves(_,_)
ACSteps(t, c) == ACRoot(t, c) \cup
  (IF IsOp2(t, c) THEN { Op2(c, s, A2(t)) : s \in ACSteps(A1(t), c) } \cup { Op2(c, A1(t), s) : s \in ACSteps(A2(t), c) } ELSE {})
ACLeaves(t, c) == IF IsOp2(t, c) THEN ACLeaves(A1(t), c) + ACLeaves(A2(t), c) ELSE 1

\* ------------------------------------------------------------------ negation actions
NnfRoot(t) ==
  { Neg(Neg(t)) }
  \cup (IF IsOp1(t, NegC) /\ IsOp1(t[3], NegC) THEN { t[3][3] } ELSE {})
  \cup (IF IsOp1(t, NegC) /\ IsOp2(t[3], ConjC) THEN { Disj(Neg(A1(t[3])), Neg(A2(t[3]))) } ELSE {})
  \cup (IF IsOp1(t, NegC) /\ IsOp2(t[3], DisjC) THEN { Conj(Neg(A1(t[3])), Neg(A2(t[3]))) } ELSE {})
  \cup (IF IsOp2(t, DisjC) /\ IsOp1(A1(t), NegC) /\ IsOp1(A2(t), NegC) THEN { Neg(Conj(A1(t)[3], A2(t)[3])) } ELSE {})
  \cup (IF IsOp2(t, ConjC) /\ IsOp1(A1(t), NegC) /\ IsOp1(A2(t), NegC) THEN { Neg(Disj(A1(t)[3], A2(t)[3])) } ELSE {})
RECURSIVE NnfSteps(_)
NnfSteps(t) == NnfRoot(t) \cup
  (IF IsOp2(t, ConjC) \/ IsOp2(t, DisjC)
   THEN { Op2(t[2][2], s, A2(t)) : s \in NnfSteps(A1(t)) } \cup { Op2(t[2][2], A1(t), s) : s \in NnfSteps(A2(t)) }
   ELSE IF IsOp1(t, NegC) THEN { Neg(s) : s \in NnfSteps(t[3]) } ELSE {})

\* ------------------------------------------------------------------ one step of the machine (size-bounded)
Steps(mode, seed, x) ==
  CASE mode = "arith" -> LET T == TypeOf(seed, <<>>) IN { y \in ArithSteps(x, T) : LeafCount(y, T) <= MaxLeaves /\ Mag(y, T) < 10000 }
    [] mode = "conj" -> { y \in ACSteps(x, ConjC) : ACLeaves(y, ConjC) <= MaxMembers }
    [] mode = "disj" -> { y \in ACSteps(x, DisjC) : ACLeaves(y, DisjC) <= MaxMembers }
    [] mode = "nnf" -> { y \in NnfSteps(x) : Size(y) <= MaxNnfSize }

\* ------------------------------------------------------------------ seeds
ArithLeaves(T) == { V("x", T), V("y", T), Num(T, 0), Num(T, 1), Num(T, 2) } \cup (IF Rich THEN { V("z", T), Num(T, 3) } ELSE {})
RECURSIVE Trees(_,_)
Trees(n, T) == IF n = 1 THEN ArithLeaves(T)
               ELSE UNION { { Op2(c, a, b) : c \in {PlusC(T), TimesC(T)}, a \in Trees(k, T), b \in Trees(n - k, T) } : k \in 1..(n - 1) }
\* one representative per polynomial
Reps(S, T) == LET ps == { <<PolyOf(x, T), x>> : x \in S } IN { (CHOOSE pr \in ps : pr[1] = p)[2] : p \in { pr[1] : pr \in ps } }
Special(T) ==
  LET x == V("x", T) y == V("y", T) z == V("z", T) IN
  IF T = NatT THEN { Plus(T, Suc(x), y), Times(T, x, Suc(y)), Suc(Suc(x)),
                     Plus(T, Minus(T, x, y), z), Times(T, Minus(T, x, y), Plus(T, x, OneC(T))), Plus(T, Minus(T, x, y), Minus(T, x, y)) }
                   \cup (IF Rich THEN { Times(T, Suc(x), Suc(y)), Plus(T, Times(T, Minus(T, x, y), z), x) } ELSE {})
  ELSE { Minus(T, x, y), Minus(T, x, Minus(T, y, x)), Um(T, Plus(T, x, y)), Minus(T, x, x),
         Times(T, Minus(T, x, y), Plus(T, x, y)), Plus(T, Times(T, x, x), x), Times(T, PowN(T, x, 2), x),
         Plus(T, PowN(T, x, 2), Times(T, Num(T, 2), x)) }
       \cup (IF T = RealT THEN { PowN(T, Plus(T, x, y), 2), Plus(T, PowN(T, x, 2), Plus(T, x, y)) } ELSE {})
       \cup (IF Rich THEN { Minus(T, Times(T, x, y), Times(T, y, x)), Times(T, Plus(T, x, OneC(T)), Minus(T, x, OneC(T))),
                            Plus(T, Times(T, x, Times(T, x, y)), Times(T, x, y)), Um(T, Minus(T, x, Um(T, y))) } ELSE {})
       \cup (IF Rich /\ T = RealT THEN { PowN(T, Plus(T, x, OneC(T)), 3), Times(T, PowN(T, Plus(T, x, y), 2), x) } ELSE {})
ArithSeeds(T) == Reps(UNION { Trees(n, T) : n \in 1..SeedLeaves }, T) \cup Special(T)

bA == V("A", BoolT)  bB == V("B", BoolT)  bC == V("C", BoolT)
Lits == { bA, bB, Neg(bA), TrueC, FalseC, Imp(bA, bB) } \cup (IF Rich THEN { bC, Neg(bB), Disj(bA, bC) } ELSE {})
\* a right-nested chain over the members of M in the order of SetToSeq (one seed per member set)
RECURSIVE Chain(_,_)
Chain(c, M) == IF Cardinality(M) = 1 THEN CHOOSE m \in M : TRUE
               ELSE LET m == CHOOSE y \in M : TRUE IN Op2(c, m, Chain(c, M \ {m}))
MemberSets == { M \in SUBSET Lits : Cardinality(M) >= 1 /\ Cardinality(M) <= PropMembers }
NnfSeeds == { Neg(Conj(bA, bB)), Neg(Disj(bA, Neg(bB))), Neg(Neg(bA)), Neg(Conj(bA, Disj(bB, bA))),
              Conj(Neg(Disj(bA, bB)), bA), Neg(TrueC), Disj(Neg(FalseC), bA) }
            \cup (IF Rich THEN { Neg(Conj(Disj(bA, bB), Neg(bC))), Neg(Disj(Conj(bA, bB), Conj(Neg(bA), bC))), Neg(Conj(Imp(bA, bB), bA)) } ELSE {})
SeedSet == { <<"arith", s>> : s \in ArithSeeds(NatT) \cup ArithSeeds(IntT) \cup ArithSeeds(RealT) }
           \cup { <<"conj", Chain(ConjC, M)>> : M \in MemberSets } \cup { <<"disj", Chain(DisjC, M)>> : M \in MemberSets }
           \cup { <<"nnf", s>> : s \in NnfSeeds }

\* ------------------------------------------------------------------ the machine
VARIABLES mode, seed, e
vars == <<mode, seed, e>>
Init == \E p \in SeedSet : mode = p[1] /\ seed = p[2] /\ e = p[2]
Next == /\ e' \in Steps(mode, seed, e)
        /\ UNCHANGED <<mode, seed>>
Spec == Init /\ [][Next]_vars

\* ------------------------------------------------------------------ properties
TyOfSeed == TypeOf(seed, <<>>)
TypeInv == /\ mode \in {"arith", "conj", "disj", "nnf"}
           /\ TypeOf(e, <<>>) = TyOfSeed
           /\ (mode = "arith") = (TyOfSeed \in NumTypes)
           /\ (mode # "arith") => TyOfSeed = BoolT
PolyPreserved == mode = "arith" => PolyExaminable(e, TyOfSeed) /\ PolyOf(e, TyOfSeed) = PolyOf(seed, TyOfSeed)
MembersPreserved == /\ mode = "conj" => MemberSet(e, ConjC) = MemberSet(seed, ConjC)
                    /\ mode = "disj" => MemberSet(e, DisjC) = MemberSet(seed, DisjC)
TablePreserved == mode # "arith" => PropExaminable(e, seed) /\ SameTable(e, seed)
\* no action of the machine looks inside an opaque atom
AtomsPreserved == mode = "arith" => AtomsOf(e, TyOfSeed) \subseteq AtomsOf(seed, TyOfSeed)
=============================================================================
