------------------------------ MODULE C10_Rearr ------------------------------
(* S-specification for C10: the REARRANGEMENT MACHINE.                                                  *)
(*   state   : mode  -- "arith" | "conj" | "disj" | "nnf"                                                *)
(*             ty    -- nat, int or real for "arith" and bool otherwise                                   *)
(*             cls   -- the class of the orbit, fixed when the orbit starts: the polynomial (arith), the *)
(*                      member set (conj, disj), the starting formula (nnf)                              *)
(*             e     -- the current expression (HOL term, codec encoding)                                *)
(*   actions : at any position reachable through arithmetic (resp. /\ , \/ , ~) operators:               *)
(*             Comm, Assoc (both ways), Distrib (left/right), Factor (left/right), AddZero / DropZero,   *)
(*             MulOne / DropOne, FoldNum / SplitNum, SucPlus, SubNeg / NegMul / NegNeg / NegAdd (types   *)
(*             with a ring subtraction only: truncated subtraction on nat is an opaque atom and no       *)
(*             action looks inside it), PowUnfold / PowFold, Dup / Dedup (conj, disj), DeMorgan / DNeg   *)
(*   property: every action preserves the polynomial PolyOf(e) (arith), the member set and the truth     *)
(*             table (conj / disj), the truth table (nnf); every state is well-typed at the seed's type  *)
(* TLC explores the orbits of the seeds (all +,* trees with at most SeedLeaves leaves, plus hand-picked  *)
(* seeds with - uminus ^ Suc and opaque atoms) as the reachable state space; the dump of the reachable   *)
(* states (-dump) is the vector file: the members of one orbit are the states with the same (mode,ty,cls).*)
EXTENDS C10_Laws

CONSTANTS SeedLeaves,     \* arithmetic seeds: +,* trees with at most this many leaves
          MaxLeaves,      \* arithmetic states have at most this many leaves
          PropMembers,    \* conj/disj seeds: member sets of at most this size
          MaxMembers,     \* conj/disj states have at most this many leaves
          MaxNnfSize,     \* nnf states have at most this term size
          Rich            \* more leaves / literals / special seeds

\* ------------------------------------------------------------------ constructors
V(n, T) == <<"var", n, T>>
Plus(T, a, b) == Op2(PlusC(T), a, b)
Times(T, a, b) == Op2(TimesC(T), a, b)
Minus(T, a, b) == Op2(MinusC(T), a, b)
Um(T, a) == Op1(UminusC(T), a)
PowN(T, a, k) == Op2(PowerC(T), a, Num(NatT, k))
Suc(a) == Op1(SucC, a)
Conj(a, b) == Op2(ConjC, a, b)
Disj(a, b) == Op2(DisjC, a, b)

\* ------------------------------------------------------------------ arithmetic actions at the root of t (t has type T)
PlusRoot(t, T) ==
  LET a == A1(t) b == A2(t) IN
     { Plus(T, b, a) }                                                                                   \* Comm
  \cup (IF IsOp2(b, PlusC(T)) THEN { Plus(T, Plus(T, a, A1(b)), A2(b)) } ELSE {})                       \* Assoc
  \cup (IF IsOp2(a, PlusC(T)) THEN { Plus(T, A1(a), Plus(T, A2(a), b)) } ELSE {})
  \cup (IF IsOp2(a, TimesC(T)) /\ IsOp2(b, TimesC(T)) /\ A1(a) = A1(b) THEN { Times(T, A1(a), Plus(T, A2(a), A2(b))) } ELSE {})   \* Factor
  \cup (IF IsOp2(a, TimesC(T)) /\ IsOp2(b, TimesC(T)) /\ A2(a) = A2(b) THEN { Times(T, Plus(T, A1(a), A1(b)), A2(a)) } ELSE {})
  \cup (IF b = ZeroC(T) THEN {a} ELSE {}) \cup (IF a = ZeroC(T) THEN {b} ELSE {})                      \* DropZero
  \cup (IF IsNum(a, T) /\ IsNum(b, T) THEN { Num(T, NumVal(a, T) + NumVal(b, T)) } ELSE {})              \* FoldNum
  \cup (IF T = NatT /\ b = OneC(T) THEN { Suc(a) } ELSE {})                                             \* SucPlus
  \cup (IF HasSub(T) /\ IsOp1(b, UminusC(T)) THEN { Minus(T, a, b[3]) } ELSE {})                        \* SubNeg
TimesRoot(t, T) ==
  LET a == A1(t) b == A2(t) IN
     { Times(T, b, a) }
  \cup (IF IsOp2(b, TimesC(T)) THEN { Times(T, Times(T, a, A1(b)), A2(b)) } ELSE {})
  \cup (IF IsOp2(a, TimesC(T)) THEN { Times(T, A1(a), Times(T, A2(a), b)) } ELSE {})
  \cup (IF IsOp2(b, PlusC(T)) THEN { Plus(T, Times(T, a, A1(b)), Times(T, a, A2(b))) } ELSE {})         \* Distrib
  \cup (IF IsOp2(a, PlusC(T)) THEN { Plus(T, Times(T, A1(a), b), Times(T, A2(a), b)) } ELSE {})
  \cup (IF b = OneC(T) THEN {a} ELSE {}) \cup (IF a = OneC(T) THEN {b} ELSE {})                        \* DropOne
  \cup (IF IsNum(a, T) /\ IsNum(b, T) THEN { Num(T, NumVal(a, T) * NumVal(b, T)) } ELSE {})
  \cup (IF HasSub(T) /\ a = Num(T, 0 - 1) THEN { Um(T, b) } ELSE {})                                    \* NegMul
  \cup (IF T # NatT /\ a = b THEN { PowN(T, a, 2) } ELSE {})                                            \* PowFold
  \cup (IF T # NatT /\ IsPow(a, T) /\ IsNum(A2(a), NatT) /\ A1(a) = b /\ NumVal(A2(a), NatT) < MaxExp
        THEN { PowN(T, b, NumVal(A2(a), NatT) + 1) } ELSE {})
ArithRoot(t, T) ==
     (IF IsOp2(t, PlusC(T)) THEN PlusRoot(t, T) ELSE {})
  \cup (IF IsOp2(t, TimesC(T)) THEN TimesRoot(t, T) ELSE {})
  \cup { Plus(T, t, ZeroC(T)), Times(T, t, OneC(T)) }                                                    \* AddZero, MulOne
  \cup (IF IsNum(t, T) /\ NumVal(t, T) >= 2 THEN { Plus(T, Num(T, NumVal(t, T) - 1), OneC(T)) } ELSE {})  \* SplitNum
  \cup (IF T = NatT /\ IsOp1(t, SucC) THEN { Plus(T, t[3], OneC(T)) } ELSE {})
  \cup (IF HasSub(T) /\ IsOp2(t, MinusC(T)) THEN { Plus(T, A1(t), Um(T, A2(t))) } ELSE {})
  \cup (IF HasSub(T) /\ IsOp1(t, UminusC(T)) /\ ~IsNum(t[3], T) THEN { Times(T, Num(T, 0 - 1), t[3]) } ELSE {})
  \cup (IF HasSub(T) /\ IsOp1(t, UminusC(T)) /\ IsOp1(t[3], UminusC(T)) THEN { t[3][3] } ELSE {})       \* NegNeg
  \cup (IF HasSub(T) /\ IsOp1(t, UminusC(T)) /\ IsOp2(t[3], PlusC(T)) THEN { Plus(T, Um(T, A1(t[3])), Um(T, A2(t[3]))) } ELSE {})
  \cup (IF IsPow(t, T) /\ IsNum(A2(t), NatT) /\ NumVal(A2(t), NatT) >= 2
        THEN { Times(T, PowN(T, A1(t), NumVal(A2(t), NatT) - 1), A1(t)) } ELSE {})                       \* PowUnfold
  \cup (IF IsPow(t, T) /\ A2(t) = OneC(NatT) THEN { A1(t) } ELSE {})
RECURSIVE ArithSteps(_,_)
ArithSteps(t, T) ==
  ArithRoot(t, T) \cup
  (IF IsOp2(t, PlusC(T)) \/ IsOp2(t, TimesC(T)) \/ (HasSub(T) /\ IsOp2(t, MinusC(T)))
   THEN { Op2(t[2][2], s, A2(t)) : s \in ArithSteps(A1(t), T) } \cup { Op2(t[2][2], A1(t), s) : s \in ArithSteps(A2(t), T) }
   ELSE IF (HasSub(T) /\ IsOp1(t, UminusC(T)) /\ ~IsNum(t[3], T)) \/ (T = NatT /\ IsOp1(t, SucC))
   THEN { Op1(t[2], s) : s \in ArithSteps(t[3], T) }
   ELSE IF IsPow(t, T) THEN { Op2(PowerC(T), s, A2(t)) : s \in ArithSteps(A1(t), T) }
   ELSE {})

\* ------------------------------------------------------------------ conjunction / disjunction actions (c = ConjC or DisjC)
ACRoot(t, c) ==
  { Op2(c, t, t) }                                                                                       \* Dup
  \cup (IF IsOp2(t, c) THEN
          LET a == A1(t) b == A2(t) IN
             { Op2(c, b, a) }
          \cup (IF IsOp2(b, c) THEN { Op2(c, Op2(c, a, A1(b)), A2(b)) } ELSE {})
          \cup (IF IsOp2(a, c) THEN { Op2(c, A1(a), Op2(c, A2(a), b)) } ELSE {})
          \cup (IF a = b THEN {a} ELSE {})                                                               \* Dedup
        ELSE {})
RECURSIVE ACSteps(_,_), ACLeaves(_,_)
ACSteps(t, c) == ACRoot(t, c) \cup
  (IF IsOp2(t, c) THEN { Op2(c, s, A2(t)) : s \in ACSteps(A1(t), c) } \cup { Op2(c, A1(t), s) : s \in ACSteps(A2(t), c) } ELSE {})
ACLeaves(t, c) == IF IsOp2(t, c) THEN ACLeaves(A1(t), c) + ACLeaves(A2(t), c) ELSE 1

\* ------------------------------------------------------------------ negation actions
NnfRoot(t) ==
  { Neg(Neg(t)) }
  \cup (IF IsOp1(t, NegC) /\ IsOp1(t[3], NegC) THEN { t[3][3] } ELSE {})
  \cup (IF IsOp1(t, NegC) /\ IsOp2(t[3], ConjC) THEN { Disj(Neg(A1(t[3])), Neg(A2(t[3]))) } ELSE {})
  \cup (IF IsOp1(t, NegC) /\ IsOp2(t[3], DisjC) THEN { Conj(Neg(A1(t[3])), Neg(A2(t[3]))) } ELSE {})
  \cup (IF IsOp2(t, DisjC) /\ IsOp1(A1(t), NegC) /\ IsOp1(A2(t), NegC) THEN { Neg(Conj(A1(t)[3], A2(t)[3])) } ELSE {})
  \cup (IF IsOp2(t, ConjC) /\ IsOp1(A1(t), NegC) /\ IsOp1(A2(t), NegC) THEN { Neg(Disj(A1(t)[3], A2(t)[3])) } ELSE {})
RECURSIVE NnfSteps(_)
NnfSteps(t) == NnfRoot(t) \cup
  (IF IsOp2(t, ConjC) \/ IsOp2(t, DisjC)
   THEN { Op2(t[2][2], s, A2(t)) : s \in NnfSteps(A1(t)) } \cup { Op2(t[2][2], A1(t), s) : s \in NnfSteps(A2(t)) }
   ELSE IF IsOp1(t, NegC) THEN { Neg(s) : s \in NnfSteps(t[3]) } ELSE {})

\* ------------------------------------------------------------------ one step of the machine (growth is size-bounded)
Steps(m, T, x) ==
  CASE m = "arith" -> LET n == LeafCount(x, T) IN
                      { y \in ArithSteps(x, T) : (LeafCount(y, T) <= MaxLeaves \/ LeafCount(y, T) <= n) /\ Mag(y, T) < 10000 }
    [] m = "conj" -> { y \in ACSteps(x, ConjC) : ACLeaves(y, ConjC) <= MaxMembers }
    [] m = "disj" -> { y \in ACSteps(x, DisjC) : ACLeaves(y, DisjC) <= MaxMembers }
    [] m = "nnf" -> { y \in NnfSteps(x) : Size(y) <= MaxNnfSize \/ Size(y) <= Size(x) }

\* ------------------------------------------------------------------ seeds
ArithLeaves(T) == { V("x", T), V("y", T), Num(T, 0), Num(T, 1), Num(T, 2) } \cup (IF Rich THEN { V("z", T), Num(T, 3) } ELSE {})
RECURSIVE Trees(_,_)
Trees(n, T) == IF n = 1 THEN ArithLeaves(T)
               ELSE UNION { { Op2(c, a, b) : c \in {PlusC(T), TimesC(T)}, a \in Trees(k, T), b \in Trees(n - k, T) } : k \in 1..(n - 1) }
Special(T) ==
  LET x == V("x", T) y == V("y", T) z == V("z", T) IN
  IF T = NatT THEN { Plus(T, Suc(x), y), Times(T, x, Suc(y)), Suc(Suc(x)),
                     Plus(T, Minus(T, x, y), z), Times(T, Minus(T, x, y), Plus(T, x, OneC(T))), Plus(T, Minus(T, x, y), Minus(T, x, y)) }
                   \cup (IF Rich THEN { Times(T, Suc(x), Suc(y)), Plus(T, Times(T, Minus(T, x, y), z), x) } ELSE {})
  ELSE { Minus(T, x, y), Minus(T, x, Minus(T, y, x)), Um(T, Plus(T, x, y)), Minus(T, x, x),
         Times(T, Minus(T, x, y), Plus(T, x, y)), Plus(T, Times(T, x, x), x), Times(T, PowN(T, x, 2), x),
         Plus(T, PowN(T, x, 2), Times(T, Num(T, 2), x)) }
       \cup (IF T = RealT THEN { PowN(T, Plus(T, x, y), 2), Plus(T, PowN(T, x, 2), Plus(T, x, y)) } ELSE {})
       \cup (IF Rich THEN { Minus(T, Times(T, x, y), Times(T, y, x)), Times(T, Plus(T, x, OneC(T)), Minus(T, x, OneC(T))),
                            Plus(T, Times(T, x, Times(T, x, y)), Times(T, x, y)), Um(T, Minus(T, x, Um(T, y))) } ELSE {})
       \cup (IF Rich /\ T = RealT THEN { PowN(T, Plus(T, x, OneC(T)), 3), Times(T, PowN(T, Plus(T, x, y), 2), x) } ELSE {})
ArithSeeds(T) == UNION { Trees(n, T) : n \in 1..SeedLeaves } \cup Special(T)

bA == V("A", BoolT)  bB == V("B", BoolT)  bC == V("C", BoolT)
Lits == { bA, bB, Neg(bA), TrueC, FalseC, Imp(bA, bB) } \cup (IF Rich THEN { bC, Neg(bB), Disj(bA, bC) } ELSE {})
\* one chain per member set (in the order TLC enumerates the set); the other arrangements are reached by the actions
RECURSIVE Chain(_,_)
Chain(c, M) == IF Cardinality(M) = 1 THEN CHOOSE m \in M : TRUE
               ELSE LET m == CHOOSE y \in M : TRUE IN Op2(c, m, Chain(c, M \ {m}))
\* a member of a disjunction is not itself a disjunction
Pool(c) == IF c = DisjC THEN Lits \ { Disj(bA, bC) } ELSE Lits
MemberSets(c) == { M \in SUBSET Pool(c) : Cardinality(M) >= 1 /\ Cardinality(M) <= PropMembers }
NnfSeeds == { Neg(Conj(bA, bB)), Neg(Disj(bA, Neg(bB))), Neg(Neg(bA)), Neg(Conj(bA, Disj(bB, bA))),
              Conj(Neg(Disj(bA, bB)), bA), Neg(TrueC), Disj(Neg(FalseC), bA) }
            \cup (IF Rich THEN { Neg(Conj(Disj(bA, bB), Neg(bC))), Neg(Disj(Conj(bA, bB), Conj(Neg(bA), bC))), Neg(Conj(Imp(bA, bB), bA)) } ELSE {})
SeedSet == { <<"arith", s>> : s \in ArithSeeds(NatT) \cup ArithSeeds(IntT) \cup ArithSeeds(RealT) }
           \cup { <<"conj", Chain(ConjC, M)>> : M \in MemberSets(ConjC) } \cup { <<"disj", Chain(DisjC, M)>> : M \in MemberSets(DisjC) }
           \cup { <<"nnf", s>> : s \in NnfSeeds }
ClassOf(m, T, x) == CASE m = "arith" -> PolyOf(x, T) [] m = "conj" -> MemberSet(x, ConjC) [] m = "disj" -> MemberSet(x, DisjC) [] m = "nnf" -> {x}

\* ------------------------------------------------------------------ the machine
VARIABLES mode, ty, cls, e
vars == <<mode, ty, cls, e>>
Init == \E p \in SeedSet : /\ mode = p[1] /\ e = p[2] /\ ty = TypeOf(p[2], <<>>)
                           /\ cls = ClassOf(p[1], TypeOf(p[2], <<>>), p[2])
Next == /\ e' \in Steps(mode, ty, e)
        /\ UNCHANGED <<mode, ty, cls>>
Spec == Init /\ [][Next]_vars

\* ------------------------------------------------------------------ properties
TypeInv == /\ mode \in {"arith", "conj", "disj", "nnf"}
           /\ TypeOf(e, <<>>) = ty
           /\ (mode = "arith") = (ty \in NumTypes)
           /\ (mode # "arith") => ty = BoolT
PolyPreserved == mode = "arith" => PolyExaminable(e, ty) /\ PolyOf(e, ty) = cls
MembersPreserved == /\ mode = "conj" => MemberSet(e, ConjC) = cls
                    /\ mode = "disj" => MemberSet(e, DisjC) = cls
\* the truth table is a function of the class
RECURSIVE FoldSet(_,_,_)
FoldSet(c, M, unit) == IF M = {} THEN unit ELSE LET m == CHOOSE y \in M : TRUE IN Op2(c, m, FoldSet(c, M \ {m}, unit))
ClassFormula == CASE mode = "conj" -> FoldSet(ConjC, cls, TrueC) [] mode = "disj" -> FoldSet(DisjC, cls, FalseC)
                  [] mode = "nnf" -> CHOOSE x \in cls : TRUE [] OTHER -> TrueC
TablePreserved == mode # "arith" => PropExaminable(e, ClassFormula) /\ SameTable(e, ClassFormula)
\* no action of the machine looks inside an opaque atom
AtomsPreserved == mode = "arith" => AtomsOf(e, ty) \subseteq UNION { MAtoms(m) : m \in Monos(cls) } \cup { a \in AtomsOf(e, ty) : a[1] = "var" }
=============================================================================
