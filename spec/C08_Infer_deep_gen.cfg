SPECIFICATION Spec
CONSTANTS MaxSize = 8
 MaxSteps = 3
 NV = 4
 MaxAtoms = 4
 AtomKinds = {"A", "E", "L", "F", "P", "N", "B", "M"}
 LongKinds = {"A", "L", "F"}
 Variants <- VariantsAll
 FinalOccursCheck = TRUE
 AnnotVarCheck = TRUE
 WithModel = FALSE
INVARIANT TypedOK
INVARIANT ContractSane
INVARIANT Record
POSTCONDITION Post
CHECK_DEADLOCK FALSE
