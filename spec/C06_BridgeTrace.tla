--------------------------- MODULE C06_BridgeTrace ---------------------------
(* T-specification for C06.  Events come from the real bridge (harness/drivers/c06.py):                        *)
(*   [tid, key, solver, goal, prems, acc, exc, flag, src]                                                      *)
(*   solver : "z3.solve" (z3wrapper.solve on  prems --> goal), "z3.macro" (Z3Macro.eval with the premises as   *)
(*            previous theorems), "z3.proof" (a one-step proof through the proof checker),                     *)
(*            "sympy.goal" / "sympy.interval" (sympywrapper.solve_goal / solve_with_interval),                 *)
(*            "sympy.macro" (SymPyMacro.can_eval + eval)                                                       *)
(*   goal, prems : the real HOL terms in the applied form of C06_Sem (structural projection)                   *)
(*   acc    : "yes" the step accepted the goal | "no" it declined | "exc" it raised | "timeout" Z3 did not      *)
(*            answer and was interrupted by the driver's watchdog (z3wrapper.solve has no time limit)           *)
(*   flag   : value of z3wrapper.check_z3 when the step ran                                                    *)
(*   route  : "giveup" when the step ran under a Z3 resource limit that makes Z3 answer "unknown" (else "")     *)
(* Clauses (on every accepted event):                                                                          *)
(*   Z3Sound / SymPySound : ~Refuted(goal | prems) -- no assignment of the free variables over the finite      *)
(*                 sub-domains makes every premise true and the goal false under HOL's meaning (C06_Sem)       *)
(*   SolverConsulted : a Z3 proof step (macro / checker) ran with check_z3 = TRUE; with the flag off the step    *)
(*                 asserts every goal without calling the solver                                              *)
(* Not examined (nt = FALSE): goals outside the evaluable fragment (transcendental functions, functions over   *)
(* nat, > 4 free variables, ...), goals whose truth value is "N" under every assignment.                       *)
(* Divergence (informational): the step declined a goal that is decided TRUE under every assignment, or Z3 did   *)
(* not answer within the driver's limit.                                                                        *)
EXTENDS C06_Sem, TraceLib
NT == 2
Exam(e) == Examinable(e.goal, e.prems)
\* a declined goal is only evaluated (for the divergence statistic) when it is closed
Out(e) == IF Exam(e) /\ (e.acc = "yes" \/ (e.acc = "no" /\ SeqFV(e.goal, e.prems) = {}))
          THEN Outcomes(e.goal, e.prems, NT, 1) ELSE {"N"}
IsZ3(e) == e.solver \in {"z3.solve", "z3.macro", "z3.proof"}
ClausesO(e, o) ==
  (IF e.acc = "yes" /\ "F" \in o THEN {IF IsZ3(e) THEN "Z3Sound" ELSE "SymPySound"} ELSE {})
  \cup (IF e.solver \in {"z3.macro", "z3.proof"} /\ e.acc = "yes" /\ e.flag # TRUE THEN {"SolverConsulted"} ELSE {})
NontrivialO(e, o) == e.acc = "yes" /\ o # {"N"}
GaveUp(e) == "route" \in DOMAIN e /\ e.route = "giveup"          \* tried under a resource limit: declining says nothing
DivergesO(e, o) == (e.acc = "no" /\ o = {"T"} /\ ~GaveUp(e)) \/ e.acc = "timeout"
Clauses(e) == ClausesO(e, Out(e))
Nontrivial(e) == NontrivialO(e, Out(e))
Diverges(e) == DivergesO(e, Out(e))
TNext == LET e == Trace[l]  o == Out(e) IN TStep(e.tid, ClausesO(e, o), NontrivialO(e, o), DivergesO(e, o))
TSpec == TInit /\ [][TNext]_l
=============================================================================
