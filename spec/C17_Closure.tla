---------------------------- MODULE C17_Closure ----------------------------
(* C17, reference level (variable-free definitions shared by S, I and T).                 *)
(* Vocabulary: a finite universe U of constant names and ONE binary symbol f.             *)
(*   equations  <<"c", a, b>>       a = b                                                 *)
(*              <<"f", a1, a2, a>>  f(a1, a2) = a                                         *)
(* Closure(U, E) is the set of pairs <<s, t>> of constants whose equality follows from E  *)
(* by reflexivity, symmetry, transitivity and congruence: the LEAST fixpoint of StepRel.  *)
(* Explains(U, X, E, s, t): X is an explanation of s = t from the merged equations E.     *)
EXTENDS Naturals, Sequences, FiniteSets, TLC

IsC(e) == e[1] = "c"
IsF(e) == e[1] = "f"
CEqs(U) == { <<"c", a, b>> : a \in U, b \in U }
FEqs(U) == { <<"f", a, b, c>> : a \in U, b \in U, c \in U }
COf(E) == { e \in E : IsC(e) }
FOf(E) == { e \in E : IsF(e) }

\* ---------------------------------------------------------------- the definition
StepRel(U, R, E) ==
     R \cup { <<p[2], p[1]>> : p \in R }                                                     \* symmetry
       \cup { p \in U \X U : \E y \in U : <<p[1], y>> \in R /\ <<y, p[2]>> \in R }           \* transitivity
       \cup { p \in U \X U : \E e1 \in FOf(E), e2 \in FOf(E) :                                \* congruence
                  /\ e1[4] = p[1] /\ e2[4] = p[2]
                  /\ <<e1[2], e2[2]>> \in R /\ <<e1[3], e2[3]>> \in R }
RECURSIVE Fix(_,_,_)
Fix(U, R, E) == LET R2 == StepRel(U, R, E) IN IF R2 = R THEN R ELSE Fix(U, R2, E)
Closure(U, E) == Fix(U, { <<a, a>> : a \in U } \cup { <<e[2], e[3]>> : e \in COf(E) }, E)

\* an equation counts as merged in either orientation of a constant equation (a = b is b = a)
InE(x, E) == x \in E \/ (IsC(x) /\ <<"c", x[3], x[2]>> \in E)
Explains(U, X, E, s, t) == (\A x \in X : InE(x, E)) /\ <<s, t>> \in Closure(U, X)

\* ---------------------------------------------------------------- independent characterisation
\* R is a congruence for E: an equivalence on U containing the constant equations and compatible with f
IsEquiv(U, R) == /\ \A a \in U : <<a, a>> \in R
                 /\ \A p \in R : <<p[2], p[1]>> \in R
                 /\ \A p \in R, r \in R : p[2] = r[1] => <<p[1], r[2]>> \in R
Compatible(R, E) == /\ \A e \in COf(E) : <<e[2], e[3]>> \in R
                    /\ \A e1 \in FOf(E), e2 \in FOf(E) :
                          (<<e1[2], e2[2]>> \in R /\ <<e1[3], e2[3]>> \in R) => <<e1[4], e2[4]>> \in R
\* every equivalence on U is the kernel of some g : U -> U
KernelOf(U, g) == { p \in U \X U : g[p[1]] = g[p[2]] }
Entailed(U, E) == { p \in U \X U : \A g \in [U -> U] : Compatible(KernelOf(U, g), E) => g[p[1]] = g[p[2]] }

\* ---------------------------------------------------------------- a faster, equivalent formulation (representative maps)
\* used by the trace specification (large universes, many explanations); S checks that it agrees with Closure on the small scope
\* (TLCEval: TLC keeps [u \in S |-> e] unevaluated; a chain of k lazy joins would cost 2^k per look-up)
Join(rm, x, y) == LET rx == rm[x] ry == rm[y] IN
                  IF rx = ry THEN rm ELSE TLCEval([u \in DOMAIN rm |-> LET v == rm[u] IN IF v = ry THEN rx ELSE v])
RECURSIVE JoinAll(_,_)
JoinAll(rm, S) == IF S = {} THEN rm ELSE LET p == CHOOSE p \in S : TRUE IN JoinAll(Join(rm, p[1], p[2]), S \ {p})
\* for every f-equation the pair (its result, the result of the canonical f-equation with congruent arguments)
CongPairs(rm, F) == { p \in { <<e[4], (CHOOSE e2 \in F : rm[e2[2]] = rm[e[2]] /\ rm[e2[3]] = rm[e[3]])[4]>> : e \in F } : rm[p[1]] # rm[p[2]] }
RECURSIVE FastFix(_,_)
FastFix(rm, F) == LET P == CongPairs(rm, F) IN IF P = {} THEN rm ELSE FastFix(JoinAll(rm, P), F)
\* constant |-> a representative of its congruence class
RepMap(U, E) == FastFix(JoinAll([u \in U |-> u], { <<e[2], e[3]>> : e \in COf(E) }), FOf(E))
ClosureFast(U, E) == LET rm == RepMap(U, E) IN { p \in U \X U : rm[p[1]] = rm[p[2]] }
ExplainsFast(U, X, E, s, t) == (\A x \in X : InE(x, E)) /\ LET rm == RepMap(U, X) IN rm[s] = rm[t]
=============================================================================
