------------------------------- MODULE C06_Sem -------------------------------
(* The HOL meaning of the goals that prover/z3wrapper.py and prover/sympywrapper.py accept, with EXACT        *)
(* arithmetic (lib/Rat.tla), and the bounded refutation procedure  Refuted(goal | prems).                     *)
(*                                                                                                            *)
(* Terms are in APPLIED FORM -- what harness/drivers/c06.py projects real holpy terms to, structurally:       *)
(*     node == << kind, name, type, n, children >>          (always a 5-tuple, fixed kind per position)       *)
(*   "var"    free variable `name` of type `type`                                                             *)
(*   "bound"  de Bruijn index n, `type` = type of its binder                                                  *)
(*   "num"    the numeral n >= 0 at `type` (zero, one, of_nat applied to a bit0/bit1 numeral)                 *)
(*   "op"     constant `name` applied to ALL the children; `type` = type of the application                   *)
(*   "all" / "exists"   binder of type `type` (name = variable name), one child = body                        *)
(*   "app"    free function variable `name` applied to the children, `type` = type of the application         *)
(*   "lam"    lambda abstraction: name = variable name, `type` = type of the bound variable, one child = body  *)
(*   "other"  anything else (never judged)                                                                    *)
(* An "op" node with fewer children than the constant takes arguments is a partial application; its `type`    *)
(* is then the remaining function type.                                                                       *)
(* Types are strings: "nat" "int" "real" "bool" "'a" "(A=>B)" "(A set)".                                      *)
(*                                                                                                            *)
(* Values: every first-order value is a rational <<p, q>> in normal form (Rat): numbers, booleans             *)
(* (FF = <<0,1>>, TT = <<1,1>>) and the elements <<1,1>>..<<k,1>> of the carrier of 'a.  NAV = ROvf =         *)
(* "no value here" (outside the fragment / beyond 31 bits); it is absorbing.                                  *)
(*                                                                                                            *)
(* Conventions (library/nat.json, int.json, real.json): nat `m - n` truncates at 0; x / y = x * inverse y     *)
(* with inverse 0 = 0; x ^ 0 = 1; abs, min, max as usual; of_nat / of_int are the embeddings.                 *)
(*                                                                                                            *)
(* Truth is THREE-VALUED (Kleene): Ev(f, ..) \in {"T", "F", "N"}.  "T"/"F" are only ever returned when the    *)
(* formula really is true / false in HOL under the given assignment:                                          *)
(*   * a quantifier over bool or over the carrier of 'a is decided exactly;                                   *)
(*   * a quantifier over nat / int / real is evaluated over a FINITE SUB-DOMAIN D of the type.  One           *)
(*     direction is always sound (a counter-instance of a forall, a witness of an exists is genuine).         *)
(*     The other direction ("no instance in D => none at all") is used only when D is COMPLETE for the body:  *)
(*     the body is, in the bound variable and every variable bound below it, a formula of DIFFERENCE LOGIC    *)
(*     (atoms  s R t  with R in <, <=, >, >=, = and s, t of the shapes  v | c | v + c | c + v | of_nat v | of_int v,     *)
(*     v an integer-valued variable, c a numeral; sub-formulas not mentioning these variables are constants). *)
(*     WITNESS BOUND.  Let C be the largest sum of numerals in one atom of the body and q the quantifier      *)
(*     depth of the body, Tq = (C + 1) * 2^q.  Call two integer tuples (with 0 as a distinguished entry)      *)
(*     r-similar when all pairwise differences are equal or both beyond r with the same sign.  A quantifier-  *)
(*     free difference formula with atom constants <= C cannot tell (C+1)-similar tuples apart, and by the    *)
(*     usual back-and-forth step (an element within r of an old one is copied at the same offset, an element  *)
(*     further than r from all old ones lies in a gap >= 2r or outside the hull and is copied at offset r)    *)
(*     formulas of depth q cannot tell (C+1)*2^q-similar tuples apart; nat binders are int binders            *)
(*     relativised to 0 <= x (constant 0).  Hence if  ?x. body  holds for the current values V of the other   *)
(*     variables, a witness exists in  [min(V u {0}) - Tq, max(V u {0}) + Tq].  D is this interval (cut at 0  *)
(*     for nat) united with the finite sub-domain.  The S machine C06_Bridge checks on its whole universe     *)
(*     that doubling Tq (parameter w) changes no verdict.                                                     *)
(*   * FUNCTIONS.  A free variable of type A => B or A set (A in nat, int, real, 'a; B also bool) ranges over  *)
(*     a finite family of genuine total functions: all functions on the carrier for A = 'a, and for a number   *)
(*     type A all tables on the points {0, 1} with values in {0, 1} (or {F, T}), extended by the default       *)
(*     value 0 (F) everywhere else.  Equality at a function type is EXTENSIONAL equality: exact between two    *)
(*     such variables (equal tables) and over 'a (all points); between lambda terms / partial applications     *)
(*     over a number type a differing sample point refutes it, agreement on the sample points decides nothing. *)
(*   * sqrt is HOL's sign-preserving root (library/real.json: sqrt x = SOME y. real_sgn y = real_sgn x /\     *)
(*     y ^ 2 = abs x; sqrt (-x) = -(sqrt x)): exact on squares of rationals.                                   *)
(*   * SIGNS.  A real term without an exact value (exp, log, sqrt of a non-square, ...) still has a set of      *)
(*     possible signs: exp t is positive (real_exp_pos_lt), abs t is not negative, sqrt t has the sign of t,    *)
(*     t * t and even powers are not negative, log / sin / cos can be anything; sums, products, quotients       *)
(*     (x / y = x * inverse y, inverse keeps the sign, inverse 0 = 0) follow the sign rules.  An order or        *)
(*     equality atom whose sides have no exact value is decided when the signs alone decide it                  *)
(*     (exp (log x) = x is false at x = -1: positive against negative), otherwise it is "N".                     *)
(*   * anything else (functions of two arguments, ...) evaluates to "N".                                        *)
(*   * goals whose estimated number of atom evaluations exceeds CostBudget are not examined (Outcomes = {"N"}). *)
(* Refuted(goal | prems): some assignment of the free variables (nat 0..n, int -n..n, real on RealGrid,       *)
(* bool, 'a in carriers of size 1 and 2, real also on the values of the closed real sub-terms of the goal, predicates / sets / functions over 'a: all of them) makes every      *)
(* premise "T" and the goal "F".  Free variables are universally quantified, so such an assignment is a       *)
(* genuine counterexample in HOL.                                                                              *)
EXTENDS Integers, Sequences, FiniteSets, TLC, Rat

NumT == {"nat", "int", "real"}
IntT == {"nat", "int"}
NAV == ROvf
TT == <<1, 1>>
FF == <<0, 1>>
RealGrid == { <<-2, 1>>, <<-1, 1>>, <<-1, 2>>, <<0, 1>>, <<1, 2>>, <<1, 1>>, <<3, 2>>, <<2, 1>>, <<3, 1>> }
TqCap == 48                  \* larger witness intervals are not enumerated (the binder is then one-sided only)

\* ---------------------------------------------------------------- builders (used by the S machine)
V(nm, T) == <<"var", nm, T, 0, <<>>>>
Bd(k, T) == <<"bound", "", T, k, <<>>>>
Nu(T, n) == <<"num", "", T, n, <<>>>>
Op1(nm, T, a) == <<"op", nm, T, 0, <<a>>>>
Op2(nm, T, a, b) == <<"op", nm, T, 0, <<a, b>>>>
Op3(nm, T, a, b, c) == <<"op", nm, T, 0, <<a, b, c>>>>
QAll(nm, T, b) == <<"all", nm, T, 0, <<b>>>>
QEx(nm, T, b) == <<"exists", nm, T, 0, <<b>>>>
Neg(a) == Op1("neg", "bool", a)
Conj(a, b) == Op2("conj", "bool", a, b)
Disj(a, b) == Op2("disj", "bool", a, b)
Impl(a, b) == Op2("implies", "bool", a, b)
Iff(a, b) == Op2("equals", "bool", a, b)
Rel(r, a, b) == Op2(r, "bool", a, b)
IsQ(t) == t[1] \in {"all", "exists"}
IsBoolNode(t) == IsQ(t) \/ (t[1] # "lam" /\ t[3] = "bool")
IsBinder(t) == t[1] \in {"all", "exists", "lam"}
Rels == {"less", "less_eq", "greater", "greater_eq", "equals"}
Conns == {"neg", "conj", "disj", "implies"}

\* ---------------------------------------------------------------- small helpers
SetMax(S) == CHOOSE m \in S : \A z \in S : z <= m
SetMin(S) == CHOOSE m \in S : \A z \in S : m <= z
RECURSIVE Pow2(_)
Pow2(q) == IF q <= 0 THEN 1 ELSE 2 * Pow2(q - 1)
Not3(a) == IF a = "T" THEN "F" ELSE IF a = "F" THEN "T" ELSE "N"
Iff3(a, b) == IF a = "N" \/ b = "N" THEN "N" ELSE IF a = b THEN "T" ELSE "F"
\* result of an arithmetic operation at type T (a value that does not belong to the type = not a value)
Fit(T, r) == IF RIsOvf(r) THEN NAV
             ELSE IF T = "nat" /\ (r[1] < 0 \/ r[2] # 1) THEN NAV
             ELSE IF T = "int" /\ r[2] # 1 THEN NAV
             ELSE r
NatMinus(x, y) == LET d == RSub(x, y) IN IF RIsOvf(d) THEN NAV ELSE IF d[1] < 0 THEN <<0, 1>> ELSE d

\* ---------------------------------------------------------------- syntactic measures
RECURSIVE QDepth(_), NumSum(_), MaxC(_), Mentions(_, _), Size(_)
QDepth(t) == LET S == { QDepth(t[5][i]) : i \in 1..Len(t[5]) }  m == IF S = {} THEN 0 ELSE SetMax(S) IN
             IF IsQ(t) THEN 1 + m ELSE m
NumSum(t) == IF t[1] = "num" THEN t[4]
             ELSE IF Len(t[5]) = 0 THEN 0 ELSE IF Len(t[5]) = 1 THEN NumSum(t[5][1])
                  ELSE IF Len(t[5]) = 2 THEN NumSum(t[5][1]) + NumSum(t[5][2])
                  ELSE NumSum(t[5][1]) + NumSum(t[5][2]) + NumSum(t[5][3])
MaxC(t) == IF t[1] = "op" /\ t[2] \in Rels /\ ~(Len(t[5]) = 2 /\ IsBoolNode(t[5][1])) THEN NumSum(t)
           ELSE LET S == { MaxC(t[5][i]) : i \in 1..Len(t[5]) } IN IF S = {} THEN 0 ELSE SetMax(S)
Size(t) == IF Len(t[5]) = 0 THEN 1
           ELSE IF Len(t[5]) = 1 THEN 1 + Size(t[5][1])
           ELSE IF Len(t[5]) = 2 THEN 1 + Size(t[5][1]) + Size(t[5][2])
           ELSE IF Len(t[5]) = 3 THEN 1 + Size(t[5][1]) + Size(t[5][2]) + Size(t[5][3])
           ELSE 1000
\* does t mention a bound variable whose index (relative to t) is in act
Mentions(t, act) == IF t[1] = "bound" THEN t[4] \in act
                    ELSE IF IsBinder(t) THEN Mentions(t[5][1], { i + 1 : i \in act })
                    ELSE \E i \in 1..Len(t[5]) : Mentions(t[5][i], act)
\* sides of a difference atom
IsIV(s) == s[1] \in {"var", "bound"} /\ s[3] \in IntT
IsNum(s) == s[1] = "num" /\ s[3] \in NumT
IsEmb(s) == /\ s[1] = "op" /\ s[3] \in {"int", "real"} /\ Len(s[5]) = 1 /\ IsIV(s[5][1])
            /\ (s[2] = "of_nat" /\ s[5][1][3] = "nat") \/ (s[2] = "of_int" /\ s[5][1][3] = "int" /\ s[3] = "real")
IsLeaf(s) == IsIV(s) \/ IsNum(s) \/ IsEmb(s)
DiffSide(s) == IsLeaf(s) \/ (s[1] = "op" /\ s[2] = "plus" /\ Len(s[5]) = 2 /\ s[3] \in NumT
                             /\ ((IsLeaf(s[5][1]) /\ IsNum(s[5][2])) \/ (IsNum(s[5][1]) /\ IsLeaf(s[5][2]))))
DiffAtom(f) == f[1] = "op" /\ f[2] \in Rels /\ Len(f[5]) = 2 /\ DiffSide(f[5][1]) /\ DiffSide(f[5][2])
\* the body f of a binder is a difference-logic formula in the variables `act` (and those bound inside f)
RECURSIVE DOC(_, _)
DOC(f, act) == IF ~Mentions(f, act) THEN TRUE
               ELSE IF IsQ(f) THEN f[3] \in IntT /\ DOC(f[5][1], { i + 1 : i \in act } \cup {0})
               ELSE IF f[1] = "op" /\ f[2] \in Conns THEN \A i \in 1..Len(f[5]) : DOC(f[5][i], act)
               ELSE IF f[1] = "op" /\ f[2] = "equals" /\ Len(f[5]) = 2 /\ IsBoolNode(f[5][1]) THEN DOC(f[5][1], act) /\ DOC(f[5][2], act)
               ELSE DiffAtom(f)

\* ---------------------------------------------------------------- domains
Carrier(k) == { <<i, 1>> : i \in 1..k }
FirstOrderT == {"nat", "int", "real", "bool", "'a"}
DomT == {"nat", "int", "real", "'a"}
FunTab == { <<"(" \o A \o "=>" \o B \o ")", A, B>> : A \in DomT, B \in DomT \cup {"bool"} }
          \cup { <<"(" \o A \o " set)", A, "bool">> : A \in DomT }
FunT == { x[1] : x \in FunTab }
SigOf(T) == CHOOSE x \in FunTab : x[1] = T              \* <<T, argument type, result type>>
DefaultOf(B) == IF B = "'a" THEN <<1, 1>> ELSE <<0, 1>>    \* 0 / FF / the first element
TabDom(A, P) == IF A = "'a" THEN { <<i, 1>> : i \in 1..P.k } ELSE { <<0, 1>>, <<1, 1>> }
TabRng(B, P) == IF B = "'a" THEN { <<i, 1>> : i \in 1..P.k } ELSE { <<0, 1>>, <<1, 1>> }
\* value of the function fv :: A => B (a table) at the point a
AppVal(fv, B, a) == IF a \in DOMAIN fv THEN fv[a] ELSE DefaultOf(B)
VDom(T, P) == CASE T = "nat" -> { <<i, 1>> : i \in 0..P.n }
                [] T = "int" -> { <<i, 1>> : i \in (-P.n)..P.n }
                [] T = "real" -> P.rg
                [] T = "bool" -> {FF, TT}
                [] T = "'a" -> Carrier(P.k)
                [] T \in FunT -> LET sg == SigOf(T) IN [TabDom(sg[2], P) -> TabRng(sg[3], P)]
                [] OTHER -> {}
BeInts(be) == { be[i][1] : i \in { j \in 1..Len(be) : be[j][2] = 1 } }
\* Witness bound of a binder of integer type with this body: Tq when the body is a difference formula in the
\* bound variable (and the interval is small enough to enumerate), 0 when the binder can only be used one-sidedly.
WitBound(T, body) ==
  IF T \in IntT /\ QDepth(body) <= 3 /\ MaxC(body) <= 20
  THEN LET tq == (MaxC(body) + 1) * Pow2(QDepth(body)) IN IF tq <= TqCap /\ DOC(body, {0}) THEN tq ELSE 0
  ELSE 0
\* Prep(f): the same formula with the witness bound of every binder stored in the (otherwise unused) 4th field of
\* the binder node, so that the syntactic analysis is done once and not at every evaluation.  Formulas that were
\* not prepared have 0 there: their integer binders are one-sided (sound, less often decided).
RECURSIVE Prep(_)
Prep(t) == IF IsQ(t) THEN (IF Len(t[5]) = 1 THEN <<t[1], t[2], t[3], WitBound(t[3], t[5][1]), <<Prep(t[5][1])>>>> ELSE t)
           ELSE IF Len(t[5]) = 0 THEN t
           ELSE IF Len(t[5]) = 1 THEN <<t[1], t[2], t[3], t[4], <<Prep(t[5][1])>>>>
           ELSE IF Len(t[5]) = 2 THEN <<t[1], t[2], t[3], t[4], <<Prep(t[5][1]), Prep(t[5][2])>>>>
           ELSE IF Len(t[5]) = 3 THEN <<t[1], t[2], t[3], t[4], <<Prep(t[5][1]), Prep(t[5][2]), Prep(t[5][3])>>>>
           ELSE t
\* domain of a binder of type T with (prepared) witness bound tq0 under the bound-variable stack be:  [dom, complete]
QD(T, tq0, be, P) ==
  IF T \in IntT
  THEN LET fin == VDom(T, P) IN
       IF tq0 > 0
       THEN LET vals == P.iv \cup BeInts(be) \cup {0}
                tq == tq0 * P.w
                lo == SetMin(vals) - tq
                hi == SetMax(vals) + tq
                lo2 == IF T = "nat" /\ lo < 0 THEN 0 ELSE lo IN
            [dom |-> { <<i, 1>> : i \in lo2..hi } \cup fin, complete |-> TRUE]
       ELSE [dom |-> fin, complete |-> FALSE]
  ELSE IF T \in {"bool", "'a"} THEN [dom |-> VDom(T, P), complete |-> TRUE]
  ELSE IF T = "real" THEN [dom |-> P.rg, complete |-> FALSE]
  ELSE [dom |-> {}, complete |-> FALSE]

\* ---------------------------------------------------------------- the meaning
\* va : free variable name -> value;  be : values of the bound variables, innermost first;
\* P = [n, w, k, iv] : bound of the finite sub-domains, witness multiplier, size of the carrier of 'a,
\*                     integer values of the free variables
FnTypeOf(t) == IF Len(t[5]) = 1 /\ t[5][1][1] # "lam" THEN "(" \o t[5][1][3] \o "=>" \o t[3] \o ")" ELSE "?"
\* type of a node (binders of formulas are bool, a lambda has the function type)
RECURSIVE NodeType(_)
NodeType(t) == IF IsQ(t) THEN "bool"
               ELSE IF t[1] = "lam" THEN (IF Len(t[5]) = 1 THEN "(" \o t[3] \o "=>" \o NodeType(t[5][1]) \o ")" ELSE "?")
               ELSE t[3]
\* loose bound variables >= c shifted up by one (the term is moved under one more binder)
RECURSIVE Lift(_, _)
Lift(t, c) == IF t[1] = "bound" THEN (IF t[4] >= c THEN <<t[1], t[2], t[3], t[4] + 1, <<>>>> ELSE t)
              ELSE IF Len(t[5]) = 0 THEN t
              ELSE LET c2 == IF IsBinder(t) THEN c + 1 ELSE c IN
                   IF Len(t[5]) = 1 THEN <<t[1], t[2], t[3], t[4], <<Lift(t[5][1], c2)>>>>
                   ELSE IF Len(t[5]) = 2 THEN <<t[1], t[2], t[3], t[4], <<Lift(t[5][1], c2), Lift(t[5][2], c2)>>>>
                   ELSE IF Len(t[5]) = 3 THEN <<t[1], t[2], t[3], t[4], <<Lift(t[5][1], c2), Lift(t[5][2], c2), Lift(t[5][3], c2)>>>>
                   ELSE <<"other", "", "?", 0, <<>>>>
\* ---- signs: sets of possible signs (-1, 0, 1) of numeric terms
SgAll == {-1, 0, 1}
SgMul(A, B) == { x * y : x \in A, y \in B }
SgAdd(A, B) == UNION { IF x = y THEN {x} ELSE IF x = 0 THEN {y} ELSE IF y = 0 THEN {x} ELSE SgAll : x \in A, y \in B }
SgNeg(A) == { -x : x \in A }
\* truth of  a R b  when only the sign sets A of a and B of b are known
SgRel(r, A, B) ==
  LET C == { IF x < y THEN -1 ELSE IF x > y THEN 1 ELSE IF x = 0 THEN 0 ELSE 2 : x \in A, y \in B } IN
  CASE r = "less" -> IF C = {-1} THEN "T" ELSE IF C \subseteq {0, 1} THEN "F" ELSE "N"
    [] r = "less_eq" -> IF C \subseteq {-1, 0} THEN "T" ELSE IF C = {1} THEN "F" ELSE "N"
    [] r = "greater" -> IF C = {1} THEN "T" ELSE IF C \subseteq {-1, 0} THEN "F" ELSE "N"
    [] r = "greater_eq" -> IF C \subseteq {0, 1} THEN "T" ELSE IF C = {-1} THEN "F" ELSE "N"
    [] r = "equals" -> IF C = {0} THEN "T" ELSE IF C \subseteq {-1, 1} THEN "F" ELSE "N"
    [] OTHER -> "N"
RECURSIVE Val(_, _, _, _), Ev(_, _, _, _), ApplyF(_, _, _, _, _, _), Sg(_, _, _, _)
Sg(t, va, be, P) ==
  LET v == Val(t, va, be, P)  nm == t[2]  as == t[5]  na == Len(t[5])  T == t[3] IN
  IF ~RIsOvf(v) THEN (IF T \in NumT /\ t[1] # "lam" /\ ~IsQ(t) THEN {RSgn(v[1])} ELSE SgAll)
  ELSE IF t[1] # "op" \/ T \notin NumT THEN (IF T = "nat" THEN {0, 1} ELSE SgAll)
  ELSE LET base ==
         CASE nm = "exp" /\ na = 1 -> {1}
           [] nm = "pi" /\ na = 0 -> {1}
           [] nm = "abs" /\ na = 1 -> { x * x : x \in Sg(as[1], va, be, P) }
           [] nm = "sqrt" /\ na = 1 -> Sg(as[1], va, be, P)
           [] nm = "uminus" /\ na = 1 -> SgNeg(Sg(as[1], va, be, P))
           [] nm = "times" /\ na = 2 -> IF as[1] = as[2] THEN { x * x : x \in Sg(as[1], va, be, P) }
                                         ELSE SgMul(Sg(as[1], va, be, P), Sg(as[2], va, be, P))
           [] nm = "real_divide" /\ na = 2 /\ T = "real" -> SgMul(Sg(as[1], va, be, P), Sg(as[2], va, be, P))
           [] nm = "real_inverse" /\ na = 1 -> Sg(as[1], va, be, P)
           [] nm = "plus" /\ na = 2 -> SgAdd(Sg(as[1], va, be, P), Sg(as[2], va, be, P))
           [] nm = "minus" /\ na = 2 /\ T # "nat" -> SgAdd(Sg(as[1], va, be, P), SgNeg(Sg(as[2], va, be, P)))
           [] nm = "power" /\ na = 2 /\ as[2][1] = "num" /\ as[2][3] = "nat" ->
                IF as[2][4] = 0 THEN {1} ELSE IF as[2][4] % 2 = 0 THEN { x * x : x \in Sg(as[1], va, be, P) } ELSE Sg(as[1], va, be, P)
           [] nm \in {"min", "max"} /\ na = 2 -> Sg(as[1], va, be, P) \cup Sg(as[2], va, be, P)
           [] nm = "of_nat" /\ na = 1 -> Sg(as[1], va, be, P)
           [] nm = "of_int" /\ na = 1 -> Sg(as[1], va, be, P)
           [] OTHER -> SgAll IN
       IF T = "nat" THEN (IF base \cap {0, 1} = {} THEN {0, 1} ELSE base \cap {0, 1}) ELSE IF base = {} THEN SgAll ELSE base
\* value of the function-typed term t :: FT applied to the point d
ApplyF(t, FT, d, va, be, P) ==
  LET sg == SigOf(FT)  A == sg[2]  B == sg[3]  n == Len(t[5])  arg == <<"bound", "", A, 0, <<>>>>
      res(u) == IF B = "bool" THEN (LET b == Ev(u, va, <<d>> \o be, P) IN IF b = "T" THEN TT ELSE IF b = "F" THEN FF ELSE NAV)
                ELSE Val(u, va, <<d>> \o be, P) IN
  CASE t[1] = "var" -> IF t[2] \in DOMAIN va THEN AppVal(va[t[2]], B, d) ELSE NAV
    [] t[1] = "lam" /\ n = 1 -> res(t[5][1])
    [] t[1] = "op" /\ n = 0 -> res(<<"op", t[2], B, 0, <<arg>>>>)
    [] t[1] = "op" /\ n = 1 -> res(<<"op", t[2], B, 0, <<Lift(t[5][1], 0), arg>>>>)
    [] t[1] = "op" /\ n = 2 -> res(<<"op", t[2], B, 0, <<Lift(t[5][1], 0), Lift(t[5][2], 0), arg>>>>)
    [] OTHER -> NAV
Val(t, va, be, P) ==
  LET kd == t[1]  nm == t[2]  T == t[3]  as == t[5]  na == Len(t[5])
      a1 == Val(as[1], va, be, P)
      a2 == Val(as[2], va, be, P)
  IN
  CASE kd = "num" -> IF T \in NumT /\ t[4] >= 0 THEN RInt(t[4]) ELSE NAV
    [] kd = "var" -> IF T \in FirstOrderT /\ nm \in DOMAIN va THEN va[nm] ELSE NAV
    [] kd = "bound" -> IF t[4] >= 0 /\ t[4] < Len(be) THEN be[t[4] + 1] ELSE NAV
    [] kd = "app" -> IF na = 1 /\ nm \in DOMAIN va /\ FnTypeOf(t) \in FunT /\ ~RIsOvf(a1) THEN AppVal(va[nm], T, a1) ELSE NAV
    [] kd = "op" ->
         (CASE nm = "plus" /\ na = 2 /\ T \in NumT -> Fit(T, RAdd(a1, a2))
            [] nm = "times" /\ na = 2 /\ T \in NumT -> Fit(T, RMul(a1, a2))
            [] nm = "minus" /\ na = 2 /\ T \in NumT -> IF T = "nat" THEN Fit(T, NatMinus(a1, a2)) ELSE Fit(T, RSub(a1, a2))
            [] nm = "uminus" /\ na = 1 /\ T \in {"int", "real"} -> Fit(T, RNeg(a1))
            [] nm = "real_divide" /\ na = 2 /\ T = "real" -> RDiv(a1, a2)
            [] nm = "real_inverse" /\ na = 1 /\ T = "real" -> RInv(a1)
            [] nm = "abs" /\ na = 1 /\ T \in NumT -> Fit(T, RAbsQ(a1))
            [] nm = "Suc" /\ na = 1 /\ T = "nat" -> Fit(T, RAdd(a1, <<1, 1>>))
            [] nm \in {"max", "min"} /\ na = 2 /\ T \in NumT ->
                 LET c == RCmp(a1, a2) IN
                 IF c = 2 THEN NAV ELSE IF nm = "max" THEN (IF c = -1 THEN a2 ELSE a1) ELSE (IF c = 1 THEN a2 ELSE a1)
            [] nm = "of_nat" /\ na = 1 /\ T \in {"int", "real"} /\ as[1][3] = "nat" -> a1
            [] nm = "of_int" /\ na = 1 /\ T = "real" /\ as[1][3] = "int" -> a1
            [] nm = "sqrt" /\ na = 1 /\ T = "real" ->
                 IF RIsOvf(a1) THEN NAV
                 ELSE IF RIsSquare(RAbs(a1[1])) /\ RIsSquare(a1[2]) THEN <<RSgn(a1[1]) * RISqrt(RAbs(a1[1])), RISqrt(a1[2])>> ELSE NAV
            [] nm = "power" /\ na = 2 /\ T \in NumT /\ as[2][3] = "nat" ->
                 IF RIsOvf(a2) \/ a2[2] # 1 \/ a2[1] < 0 THEN NAV ELSE Fit(T, RPow(a1, a2[1]))
            [] nm = "IF" /\ na = 3 ->
                 LET c == Ev(as[1], va, be, P) IN
                 IF c = "T" THEN Val(as[2], va, be, P) ELSE IF c = "F" THEN Val(as[3], va, be, P) ELSE NAV
            [] T = "bool" -> LET b == Ev(t, va, be, P) IN IF b = "T" THEN TT ELSE IF b = "F" THEN FF ELSE NAV
            [] OTHER -> NAV)
    [] OTHER -> NAV

Ev(f, va, be, P) ==
  LET kd == f[1]  nm == f[2]  as == f[5]  na == Len(f[5]) IN
  CASE kd = "op" ->
         (CASE nm = "true" /\ na = 0 -> "T"
            [] nm = "false" /\ na = 0 -> "F"
            [] nm = "neg" /\ na = 1 -> Not3(Ev(as[1], va, be, P))
            [] nm = "conj" /\ na = 2 ->
                 LET a == Ev(as[1], va, be, P) IN
                 IF a = "F" THEN "F" ELSE LET b == Ev(as[2], va, be, P) IN IF b = "F" THEN "F" ELSE IF a = "T" /\ b = "T" THEN "T" ELSE "N"
            [] nm = "disj" /\ na = 2 ->
                 LET a == Ev(as[1], va, be, P) IN
                 IF a = "T" THEN "T" ELSE LET b == Ev(as[2], va, be, P) IN IF b = "T" THEN "T" ELSE IF a = "F" /\ b = "F" THEN "F" ELSE "N"
            [] nm = "implies" /\ na = 2 ->
                 LET a == Ev(as[1], va, be, P) IN
                 IF a = "F" THEN "T" ELSE LET b == Ev(as[2], va, be, P) IN IF b = "T" THEN "T" ELSE IF a = "T" /\ b = "F" THEN "F" ELSE "N"
            [] nm = "xor" /\ na = 2 -> Not3(Iff3(Ev(as[1], va, be, P), Ev(as[2], va, be, P)))
            [] nm = "equals" /\ na = 2 ->
                 IF IsBoolNode(as[1]) THEN Iff3(Ev(as[1], va, be, P), Ev(as[2], va, be, P))
                 ELSE IF as[1][1] # "lam" /\ as[1][3] \in FirstOrderT
                 THEN LET a == Val(as[1], va, be, P)  b == Val(as[2], va, be, P) IN
                      IF RIsOvf(a) \/ RIsOvf(b)
                      THEN (IF as[1][3] \in NumT THEN SgRel("equals", Sg(as[1], va, be, P), Sg(as[2], va, be, P)) ELSE "N")
                      ELSE IF a = b THEN "T" ELSE "F"
                 ELSE IF NodeType(as[1]) \in FunT /\ NodeType(as[2]) = NodeType(as[1])
                 THEN LET FT == NodeType(as[1])  A == SigOf(FT)[2]  a == as[1]  b == as[2] IN
                      IF a[1] = "var" /\ b[1] = "var"
                      THEN (IF a[2] \in DOMAIN va /\ b[2] \in DOMAIN va THEN (IF va[a[2]] = va[b[2]] THEN "T" ELSE "F") ELSE "N")
                      ELSE LET pts == IF A = "'a" THEN Carrier(P.k) ELSE VDom(A, P)
                               rs == { LET x == ApplyF(a, FT, d, va, be, P)  y == ApplyF(b, FT, d, va, be, P) IN
                                       IF RIsOvf(x) \/ RIsOvf(y) THEN "N" ELSE IF x = y THEN "T" ELSE "F" : d \in pts } IN
                           IF "F" \in rs THEN "F" ELSE IF A = "'a" /\ rs = {"T"} THEN "T" ELSE "N"
                 ELSE "N"
            [] nm \in {"less", "less_eq", "greater", "greater_eq"} /\ na = 2 ->
                 IF as[1][3] \notin NumT THEN "N"
                 ELSE LET c == RCmp(Val(as[1], va, be, P), Val(as[2], va, be, P)) IN
                      IF c = 2 THEN SgRel(nm, Sg(as[1], va, be, P), Sg(as[2], va, be, P))
                      ELSE IF (CASE nm = "less" -> c = -1 [] nm = "less_eq" -> c # 1 [] nm = "greater" -> c = 1 [] OTHER -> c # -1)
                           THEN "T" ELSE "F"
            [] nm = "member" /\ na = 2 ->
                 LET x == Val(as[1], va, be, P)  S == as[2] IN
                 IF RIsOvf(x) THEN "N"
                 ELSE IF S[1] = "var" /\ S[3] = "(" \o as[1][3] \o " set)" /\ S[3] \in FunT /\ S[2] \in DOMAIN va
                 THEN (IF AppVal(va[S[2]], "bool", x) = TT THEN "T" ELSE "F")
                 ELSE IF S[1] = "op" /\ S[2] \in {"real_closed_interval", "real_open_interval"} /\ Len(S[5]) = 2 /\ as[1][3] = "real"
                 THEN LET c1 == RCmp(Val(S[5][1], va, be, P), x)  c2 == RCmp(x, Val(S[5][2], va, be, P)) IN
                      IF c1 = 2 \/ c2 = 2 THEN "N"
                      ELSE IF S[2] = "real_closed_interval" THEN (IF c1 # 1 /\ c2 # 1 THEN "T" ELSE "F")
                      ELSE (IF c1 = -1 /\ c2 = -1 THEN "T" ELSE "F")
                 ELSE "N"
            [] nm = "IF" /\ na = 3 /\ f[3] = "bool" ->
                 LET c == Ev(as[1], va, be, P) IN
                 IF c = "T" THEN Ev(as[2], va, be, P) ELSE IF c = "F" THEN Ev(as[3], va, be, P) ELSE "N"
            [] OTHER -> "N")
    [] kd \in {"var", "bound", "app"} ->
         IF f[3] # "bool" THEN "N" ELSE LET v == Val(f, va, be, P) IN IF v = TT THEN "T" ELSE IF v = FF THEN "F" ELSE "N"
    [] kd \in {"all", "exists"} ->
         IF na # 1 THEN "N"
         ELSE LET D == QD(f[3], f[4], be, P)
                  rs == { Ev(as[1], va, <<d>> \o be, P) : d \in D.dom } IN
              IF D.dom = {} THEN "N"
              ELSE IF kd = "all" THEN (IF "F" \in rs THEN "F" ELSE IF D.complete /\ rs = {"T"} THEN "T" ELSE "N")
              ELSE (IF "T" \in rs THEN "T" ELSE IF D.complete /\ rs = {"F"} THEN "F" ELSE "N")
    [] OTHER -> "N"

\* ---------------------------------------------------------------- free variables and refutation
RECURSIVE FV(_)
FV(t) == (IF t[1] = "var" THEN {<<t[2], t[3]>>} ELSE IF t[1] = "app" THEN {<<t[2], FnTypeOf(t)>>} ELSE {})
         \cup UNION { FV(t[5][i]) : i \in 1..Len(t[5]) }
RECURSIVE HasKind(_, _), TypesIn(_)
HasKind(t, k) == t[1] = k \/ \E i \in 1..Len(t[5]) : HasKind(t[5][i], k)
TypesIn(t) == {t[3]} \cup UNION { TypesIn(t[5][i]) : i \in 1..Len(t[5]) }
SeqFV(goal, prems) == FV(goal) \cup UNION { FV(prems[i]) : i \in 1..Len(prems) }
\* the event can be judged at all: supported variable types, one type per name, not too big
Examinable(goal, prems) ==
  LET vs == SeqFV(goal, prems) IN
  /\ \A v \in vs : v[2] \in FirstOrderT \cup FunT
  /\ \A v, w \in vs : v[1] = w[1] => v = w
  /\ Cardinality(vs) <= 4
  /\ Cardinality({ v \in vs : v[2] \in FunT }) <= 2
  /\ Size(goal) <= 60 /\ \A i \in 1..Len(prems) : Size(prems[i]) <= 40
  /\ Len(prems) <= 3
IntsOf(vs, va) == { va[vs[i][1]][1] : i \in { j \in 1..Len(vs) : vs[j][2] \in NumT /\ va[vs[j][1]][2] = 1 } }
OutcomeAt(goal, prems, va, P) ==
  LET ps == { Ev(prems[i], va, <<>>, P) : i \in 1..Len(prems) } IN
  IF "F" \in ps THEN "T"
  ELSE LET g == Ev(goal, va, <<>>, P) IN IF "N" \in ps THEN (IF g = "T" THEN "T" ELSE "N") ELSE g
RECURSIVE OutRec(_, _, _, _, _, _)
OutRec(goal, prems, vs, i, va, P) ==
  IF i > Len(vs) THEN { OutcomeAt(goal, prems, va, [P EXCEPT !.iv = IntsOf(vs, va)]) }
  ELSE UNION { OutRec(goal, prems, vs, i + 1, (vs[i][1] :> d) @@ va, P) : d \in VDom(vs[i][2], P) }
RECURSIVE SetToSeqC(_)
SetToSeqC(S) == IF S = {} THEN <<>> ELSE LET x == CHOOSE y \in S : TRUE IN <<x>> \o SetToSeqC(S \ {x})
NoVA == ("!" :> FF)                      \* the empty assignment (a string-keyed function)
UsesTyVar(goal, prems) == \E T \in TypesIn(goal) \cup UNION { TypesIn(prems[i]) : i \in 1..Len(prems) } :
                             T = "'a" \/ (T \in FunT /\ (SigOf(T)[2] = "'a" \/ SigOf(T)[3] = "'a"))
\* the set of truth values of  prems |- goal  over all assignments (carriers of size 1 and 2 for 'a)
\* ---- the real grid of a goal: RealGrid and the values of the closed real sub-terms the goal itself names
RECURSIVE IsClosedNum(_), ClosedReals(_)
IsClosedNum(t) == t[1] = "num" \/ (t[1] = "op" /\ t[3] \in NumT /\ t[2] \in {"plus", "minus", "times", "uminus", "real_divide", "of_nat", "of_int"}
                                   /\ \A i \in 1..Len(t[5]) : IsClosedNum(t[5][i]))
ClosedReals(t) == IF t[3] = "real" /\ t[1] \in {"num", "op"} /\ IsClosedNum(t)
                  THEN LET v == Val(t, NoVA, <<>>, [n |-> 0, w |-> 1, k |-> 1, iv |-> {}, rg |-> {}]) IN IF RIsOvf(v) THEN {} ELSE {v}
                  ELSE UNION { ClosedReals(t[5][i]) : i \in 1..Len(t[5]) }
GridFor(goal, prems) == LET X == ClosedReals(goal) \cup UNION { ClosedReals(prems[i]) : i \in 1..Len(prems) }
                            Y == X \ RealGrid IN
                        IF Cardinality(Y) <= 6 THEN RealGrid \cup Y ELSE RealGrid
\* ---- size guard: an estimate of the number of atom evaluations (saturating); goals beyond the budget are not examined
CostCap == 1000000
CostBudget == 150000
SatMul(a, b) == IF a = 0 \/ b = 0 THEN 0 ELSE IF a > CostCap \div b THEN CostCap + 1 ELSE a * b
SatAdd(a, b) == IF a + b > CostCap THEN CostCap + 1 ELSE a + b
RECURSIVE CostF(_, _, _), EnvCount(_, _, _)
\* t is a PREPARED formula; span = estimated spread of the integer values in scope
CostF(t, span, n) ==
  IF IsQ(t) /\ Len(t[5]) = 1
  THEN LET T == t[3]
           d == IF T \in IntT THEN (IF t[4] > 0 THEN span + 2 * t[4] ELSE 2 * n + 1)
                ELSE IF T = "real" THEN Cardinality(RealGrid) + 6 ELSE 2
           sp == IF T \in IntT /\ t[4] > 0 THEN span + 2 * t[4] ELSE span IN
       SatMul(d, CostF(t[5][1], IF sp > 400 THEN 400 ELSE sp, n))
  ELSE IF Len(t[5]) = 0 THEN 1
  ELSE IF Len(t[5]) = 1 THEN SatAdd(1, CostF(t[5][1], span, n))
  ELSE IF Len(t[5]) = 2 THEN SatAdd(CostF(t[5][1], span, n), CostF(t[5][2], span, n))
  ELSE IF Len(t[5]) = 3 THEN SatAdd(CostF(t[5][1], span, n), SatAdd(CostF(t[5][2], span, n), CostF(t[5][3], span, n)))
  ELSE 1
EnvCount(vs, i, n) == IF i > Len(vs) THEN 1
                      ELSE LET T == vs[i][2]
                               d == IF T = "nat" THEN n + 1 ELSE IF T = "int" THEN 2 * n + 1
                                    ELSE IF T = "real" THEN Cardinality(RealGrid) + 6 ELSE IF T \in {"bool", "'a"} THEN 2 ELSE 4 IN
                           SatMul(d, EnvCount(vs, i + 1, n))
Outcomes(goal0, prems0, n, w) ==
  LET goal == Prep(goal0)
      prems == IF Len(prems0) = 0 THEN <<>>
               ELSE IF Len(prems0) = 1 THEN <<Prep(prems0[1])>>
               ELSE IF Len(prems0) = 2 THEN <<Prep(prems0[1]), Prep(prems0[2])>>
               ELSE IF Len(prems0) = 3 THEN <<Prep(prems0[1]), Prep(prems0[2]), Prep(prems0[3])>>
               ELSE prems0
      vs == SetToSeqC(SeqFV(goal, prems))
      ks == IF UsesTyVar(goal, prems) THEN {1, 2} ELSE {1}
      fc == SatAdd(CostF(goal, 2 * n + 1, n), IF Len(prems) = 0 THEN 0 ELSE IF Len(prems) = 1 THEN CostF(prems[1], 2 * n + 1, n)
                                               ELSE SatAdd(CostF(prems[1], 2 * n + 1, n), CostF(prems[2], 2 * n + 1, n)))
      cost == SatMul(SatMul(EnvCount(vs, 1, n), Cardinality(ks)), SatMul(fc, w)) IN
  IF cost > CostBudget * w THEN {"N"}
  ELSE LET rg == GridFor(goal, prems) IN
       UNION { OutRec(goal, prems, vs, 1, NoVA, [n |-> n, w |-> w, k |-> k, iv |-> {}, rg |-> rg]) : k \in ks }
Refuted(goal, prems, n) == "F" \in Outcomes(goal, prems, n, 1)
=============================================================================
