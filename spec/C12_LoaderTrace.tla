---------------------------- MODULE C12_LoaderTrace ----------------------------
(* T-specification for C12.  One event per operation of a real history executed in a fresh  *)
(* process (harness/drivers/c12.py).  The composition of a loaded theory -- which items of   *)
(* which files, in which order, up to which limit -- is decided HERE from the import graph   *)
(* and item tables generated from the library files (spec/gen/C12_Items.tla).               *)
(*   LoadSucceeds        a load with a valid limit over an acyclic library returns            *)
(*   MissingLimitIsError a limit that names no item of the theory is an error                 *)
(*   CycleIsError        a theory on an import cycle is an error                               *)
(*   ReturnsExpected     the names of installed types / constants / theorems are exactly those *)
(*                       of the transitive imports followed by the own items before the limit  *)
(*                       (plus constants appended to files by earlier `touch` operations)      *)
(*   SameAsFresh         the full projection (types, constant types, theorem statements,       *)
(*                       attributes, overloads) equals that of the canonical fresh process     *)
EXTENDS C12_Items, TraceLib, FiniteSets
\* the import list of a file: the last one written by a `reimport` edit of the history, otherwise the library's
ImportsOf(n, re) == LET K == { k \in 1..Len(re) : re[k][1] = n } IN
                    IF K = {} THEN cImports[n] ELSE re[CHOOSE k \in K : \A j \in K : j <= k][2]
RECURSIVE DepOrder(_, _, _)
DepOrder(names, acc, re) ==
  IF names = <<>> THEN acc
  ELSE LET n == Head(names)
           acc1 == IF \E i \in 1..Len(acc) : acc[i] = n THEN acc ELSE Append(DepOrder(ImportsOf(n, re), acc, re), n)
       IN DepOrder(Tail(names), acc1, re)
RangeS(s) == { s[i] : i \in 1..Len(s) }
NoLimit == <<"none", "none">>
StartLimit == <<"start", "start">>
LimitIdx(th, lim) == LET I == { i \in 1..Len(cItems[th]) : cItems[th][i][1] = lim[1] /\ cItems[th][i][2] = lim[2] } IN
                     IF I = {} THEN 0 ELSE CHOOSE i \in I : \A k \in I : i <= k
OwnCount(th, lim) == IF lim = NoLimit THEN Len(cItems[th]) ELSE IF lim = StartLimit THEN 0 ELSE LimitIdx(th, lim) - 1
ValidLimit(th, lim) == lim = NoLimit \/ lim = StartLimit \/ LimitIdx(th, lim) > 0
ExtNames(th, n) == UNION { { <<x[1], x[2]>> : x \in { y \in RangeS(cItems[th][i][4]) : y[1] \in {0, 1, 2} } } : i \in 1..n }
Known(th) == th \in DOMAIN cItems
ExpectedNames(th, lim, edits, re) ==
  LET deps == RangeS(DepOrder(ImportsOf(th, re), <<>>, re)) IN
  cBase \cup UNION { ExtNames(d, Len(cItems[d])) : d \in deps } \cup ExtNames(th, OwnCount(th, lim))
        \cup { <<1, edits[k][2]>> : k \in { k \in 1..Len(edits) : edits[k][1] \in deps \/ (edits[k][1] = th /\ lim = NoLimit) } }
Installed(e) == { <<e.installed[k][1], e.installed[k][2]>> : k \in 1..Len(e.installed) }
ClausesOf(e) ==
  IF e.op # "load" \/ ~Known(e.name) THEN {}
  ELSE IF e.cyclic THEN (IF e.outcome = "ok" THEN {"CycleIsError"} ELSE {})
  ELSE IF ~ValidLimit(e.name, e.limit) THEN (IF e.outcome = "ok" THEN {"MissingLimitIsError"} ELSE {})
  ELSE IF e.outcome # "ok" THEN {"LoadSucceeds"}
  ELSE (IF Installed(e) = ExpectedNames(e.name, e.limit, e.edits, e.reimports) THEN {} ELSE {"ReturnsExpected"})
       \cup (IF e.canon # "none" /\ e.digest # e.canon THEN {"SameAsFresh"} ELSE {})
NontrivialOf(e) == e.op = "load" /\ Known(e.name)
TNext == LET e == Trace[l] IN TStep(e.tid, ClausesOf(e), NontrivialOf(e), FALSE)
TSpec == TInit /\ [][TNext]_l
=============================================================================
