---------------------------- MODULE C12_LoaderTrace ----------------------------
(* T-specification for C12.  One event per operation of a real history executed in a fresh  *)
(* process (harness/drivers/c12.py).  The composition of a loaded theory -- which items of   *)
(* which files, in which order, up to which limit -- is decided HERE from the import graph   *)
(* and item tables generated from the library files (C12_Items.tla) and from the log `fs` of *)
(* the file operations the history performed on its scratch copy of the library:             *)
(*   <<"create", new, copied, 0, imports>>   new file = alias of the CURRENT items of `copied` *)
(*                                           (copied = "": a file without items)              *)
(*   <<"remove", f, "", 0, <<>>>>                                                             *)
(*   <<"ins", f, c, pos, <<>>>>              constant item c inserted in front of index pos (0-based) *)
(*   <<"del", f, "", pos, <<>>>>             item at index pos deleted                         *)
(*   <<"reimport", f, "", 0, imports>>       f has another import list                         *)
(* Clauses:                                                                                  *)
(*   LoadSucceeds        a load with a valid limit over a well-formed library returns          *)
(*   MissingLimitIsError a limit that names no item of the CURRENT file is an error            *)
(*   CycleIsError        a theory that reaches an import cycle is an error                     *)
(*   MissingFileIsError  a theory whose file, or the file of one of its transitive imports,    *)
(*                       does not exist (never created / removed) is an error, not a result    *)
(*                       put together from what the process remembers                          *)
(*   ReturnsExpected     the names of installed types / constants / theorems are exactly those *)
(*                       of the transitive imports (per the current files) followed by the own *)
(*                       items before the limit (limit = the item of that identity)            *)
(*   SameAsFresh         the full projection (types, constant types, theorem statements,       *)
(*                       attributes, overloads) equals that of the canonical fresh process     *)
EXTENDS C12_Items, TraceLib, FiniteSets
RangeS(s) == { s[i] : i \in 1..Len(s) }
NoLimit == <<"none", "none">>
StartLimit == <<"start", "start">>
\* ---------------------------------------------------------------- the library after a sequence of file operations
NewItem(c) == <<"def.ax", c, TRUE, << <<1, c>> >>, "new">>        \* (a fifth component marks the items the history inserted)
Clamp(p, n) == IF p < 0 THEN 0 ELSE IF p > n THEN n ELSE p
InsertAt(s, p, x) == LET q == Clamp(p, Len(s)) IN SubSeq(s, 1, q) \o <<x>> \o SubSeq(s, q + 1, Len(s))
RemoveAt(s, p) == IF p < 0 \/ p >= Len(s) THEN s ELSE SubSeq(s, 1, p) \o SubSeq(s, p + 2, Len(s))
\* ex: the file exists; kn: its item table is known (from the canonical process, through aliases); org: the library file its
\* original items come from ("" = none); cut: an original item other than a theorem was deleted (later items may not parse)
Lib0 == [n \in DOMAIN cItems |-> [ex |-> TRUE, kn |-> TRUE, org |-> n, cut |-> FALSE, items |-> cItems[n],
                                  imports |-> IF n \in DOMAIN cImports THEN cImports[n] ELSE <<>>]]
Harmless(it) == Len(it) = 5 \/ it[1] \in {"thm", "thm.ax"}
ApplyOp(L, o) ==
  LET k == o[1]
      f == o[2] IN
  IF k = "create" THEN
       (f :> [ex |-> TRUE, kn |-> (o[3] = "" \/ (o[3] \in DOMAIN L /\ L[o[3]].kn /\ L[o[3]].ex)),
              org |-> IF o[3] \in DOMAIN L THEN L[o[3]].org ELSE "", cut |-> IF o[3] \in DOMAIN L THEN L[o[3]].cut ELSE FALSE,
              items |-> IF o[3] \in DOMAIN L THEN L[o[3]].items ELSE <<>>, imports |-> o[5]]) @@ L
  ELSE IF f \notin DOMAIN L THEN L
  ELSE IF k = "remove" THEN [L EXCEPT ![f].ex = FALSE]
  ELSE IF k = "ins" THEN [L EXCEPT ![f].items = InsertAt(@, o[4], NewItem(o[3]))]
  ELSE IF k = "del" THEN [L EXCEPT ![f].items = RemoveAt(@, o[4]),
                                   ![f].cut = @ \/ (o[4] >= 0 /\ o[4] < Len(L[f].items) /\ ~Harmless(L[f].items[o[4] + 1]))]
  ELSE IF k = "reimport" THEN [L EXCEPT ![f].imports = o[5]]
  ELSE L
RECURSIVE FoldOps(_, _, _)
FoldOps(L, fs, k) == IF k > Len(fs) THEN L ELSE FoldOps(ApplyOp(L, fs[k]), fs, k + 1)
LibAt(fs) == FoldOps(Lib0, fs, 1)
Created(fs) == { fs[k][2] : k \in { j \in 1..Len(fs) : fs[j][1] = "create" } }
\* ---------------------------------------------------------------- import graph of the current files
Exists(L, n) == n \in DOMAIN L /\ L[n].ex
ImportsIn(L, n) == IF Exists(L, n) THEN RangeS(L[n].imports) ELSE {}
RECURSIVE ReachFix(_, _)
ReachFix(L, S) == LET S2 == S \cup UNION { ImportsIn(L, n) : n \in S } IN IF S2 = S THEN S ELSE ReachFix(L, S2)
Below(L, n) == ReachFix(L, ImportsIn(L, n))            \* transitive imports
Closure(L, n) == Below(L, n) \cup {n}
\* peel off the files all of whose imports (inside C) are gone: what remains lies on or above a cycle
RECURSIVE Peel(_, _)
Peel(L, C) == LET R == { x \in C : ImportsIn(L, x) \cap C = {} } IN IF R = {} THEN C ELSE Peel(L, C \ R)
Cyclic(L, n) == Peel(L, Closure(L, n)) # {}
Missing(L, n) == \E x \in Closure(L, n) : ~Exists(L, x)
AllKnown(L, n) == DOMAIN cItems # {} /\ \A x \in Closure(L, n) : x \in DOMAIN L => L[x].kn
\* the whole library is well formed: no dangling import, no cycle anywhere (the loader may refuse everything otherwise)
Sane(L) == LET E == { x \in DOMAIN L : L[x].ex } IN
           /\ \A x \in E : ImportsIn(L, x) \subseteq E
           /\ Peel(L, E) = {}
\* ---------------------------------------------------------------- expected names
LimitIdx(its, lim) == LET I == { i \in 1..Len(its) : its[i][1] = lim[1] /\ its[i][2] = lim[2] } IN
                      IF I = {} THEN 0 ELSE CHOOSE i \in I : \A k \in I : i <= k
OwnCount(its, lim) == IF lim = NoLimit THEN Len(its) ELSE IF lim = StartLimit THEN 0 ELSE LimitIdx(its, lim) - 1
ValidLimit(its, lim) == lim = NoLimit \/ lim = StartLimit \/ LimitIdx(its, lim) > 0
ExtNames(its, n) == UNION { { <<x[1], x[2]>> : x \in { y \in RangeS(its[i][4]) : y[1] \in {0, 1, 2} } } : i \in 1..n }
AllNames(L, d) == ExtNames(L[d].items, Len(L[d].items))
ExpectedNames(L, th, lim) ==
  cBase \cup UNION { AllNames(L, d) : d \in Below(L, th) } \cup ExtNames(L[th].items, OwnCount(L[th].items, lim))
\* a created file is an alias: together with a file that declares the same names the result is not decided here
Clash(L, th, fs) == \E c \in Created(fs) \cap Closure(L, th) : \E d \in Closure(L, th) \ {c} : AllNames(L, c) \cap AllNames(L, d) # {}
\* The item tables say which items parse in the ORIGINAL context of their file.  They are used only when every file of the closure
\* is parsed in a context that has all names of the original one and, beyond them, only constants the history inserted (an alias in
\* place of the file it copies, a new theory among the imports); otherwise the event is not examined.
CtxOps(fs) == \E k \in 1..Len(fs) : fs[k][1] \in {"create", "reimport", "del", "remove"}
FreshNames(fs) == { <<1, fs[k][3]>> : k \in { j \in 1..Len(fs) : fs[j][1] = "ins" } }
Ctx0(o) == UNION { ExtNames(cItems[x], Len(cItems[x])) : x \in Below(Lib0, o) }
CtxL(L, d) == UNION { AllNames(L, x) : x \in Below(L, d) }
CtxSafe(L, th, fs) ==
  ~CtxOps(fs) \/ \A d \in Closure(L, th) :
                   /\ ~L[d].cut
                   /\ (L[d].org = "" \/ (Ctx0(L[d].org) \subseteq CtxL(L, d) /\ (CtxL(L, d) \ Ctx0(L[d].org)) \subseteq FreshNames(fs)))
Installed(e) == { <<e.installed[k][1], e.installed[k][2]>> : k \in 1..Len(e.installed) }
\* ---------------------------------------------------------------- verdict: <<failing clauses, examined?>>
Verdict(e) ==
  IF e.op # "load" THEN <<{}, FALSE>>
  ELSE LET L == LibAt(e.fs)
           n == e.name
           ok == e.outcome = "ok" IN
    IF ~AllKnown(L, n) THEN <<{}, FALSE>>
    ELSE IF Missing(L, n) THEN <<IF ok THEN {"MissingFileIsError"} ELSE {}, TRUE>>
    ELSE IF Cyclic(L, n) THEN <<IF ok THEN {"CycleIsError"} ELSE {}, TRUE>>
    ELSE IF ~ValidLimit(L[n].items, e.limit) THEN <<IF ok THEN {"MissingLimitIsError"} ELSE {}, TRUE>>
    ELSE IF Clash(L, n, e.fs) \/ ~CtxSafe(L, n, e.fs) THEN <<{}, FALSE>>
    ELSE IF ~ok THEN (IF Sane(L) THEN <<{"LoadSucceeds"}, TRUE>> ELSE <<{}, FALSE>>)
    ELSE <<(IF Installed(e) = ExpectedNames(L, n, e.limit) THEN {} ELSE {"ReturnsExpected"})
           \cup (IF e.canon # "none" /\ e.digest # e.canon THEN {"SameAsFresh"} ELSE {}), TRUE>>
TNext == LET e == Trace[l]
             v == Verdict(e) IN TStep(e.tid, v[1], v[2], FALSE)
TSpec == TInit /\ [][TNext]_l
=============================================================================
