SPECIFICATION Spec
CONSTANTS
  MaxOps = 3
  MaxLevel = 5
  KeepLast = TRUE
  Record = TRUE
  EmitBadOnly = FALSE
  Interferer = "ub"
  FirstOpens = TRUE
  SwOrderUser = TRUE
  SwLoadUser = TRUE
  SwFreshMeta = TRUE
  SwTotal = TRUE
  SwApplyReload = TRUE
  SwCacheWorld = TRUE
  SwCreateAtomic = TRUE
  SwFailKeeps = TRUE
CHECK_DEADLOCK FALSE
