------------------------------- MODULE C11_Def -------------------------------
(* C11 - what it means for a definition to be acceptable.  Shared by the S specification (C11_Items)  *)
(* and the T specification (C11_ItemsTrace).                                                          *)
(*   a definition      d = [name, T, args (sequence of terms), rhs]   lhs = name::T applied to args   *)
(*   SyntacticOK(d)    the literal conditions of the property statement                               *)
(*   Conservative(d,N) the semantic reading over finite standard models (HolSem)                      *)
(*   ExtOK(...)        generated theorems are well-typed over the extended signature                  *)
EXTENDS HolSem, HolGen

RECURSIVE MkApp(_,_), HeadOf(_), ArgsOf(_)
MkApp(f, as) == IF as = <<>> THEN f ELSE MkApp(<<"comb", f, Head(as)>>, Tail(as))
HeadOf(t) == IF t[1] = "comb" THEN HeadOf(t[2]) ELSE t
ArgsOf(t) == IF t[1] = "comb" THEN Append(ArgsOf(t[2]), t[3]) ELSE <<>>

\* ------------------------------------------------------------------ overlapping types
\* Two types overlap when they have a common instance, the type variables of the two sides being independent:
\* rename apart (everything becomes a schematic type variable), then first-order unification with occurs check.
RECURSIVE Rename(_,_), OccursTV(_,_), Unif(_,_)
Rename(T, p) == IF T[1] \in {"tv","stv"} THEN <<"stv", p \o T[1] \o "." \o T[2]>>
                ELSE <<"tc", T[2], [i \in 1..Len(T[3]) |-> Rename(T[3][i], p)]>>
OccursTV(a, T) == IF T[1] = "stv" THEN T[2] = a ELSE IF T[1] = "tv" THEN FALSE ELSE \E i \in 1..Len(T[3]) : OccursTV(a, T[3][i])
\* s is kept idempotent (every binding is applied to the earlier ones), so one pass of TSubst resolves a type completely
Bind(s, a, T) == LET one == << <<a, T>> >> IN [i \in 1..Len(s) |-> <<s[i][1], TSubst(s[i][2], one)>>] \o one
Unif(pairs, s) ==
  IF pairs = <<>> THEN TRUE
  ELSE LET X == TSubst(pairs[1][1], s) Y == TSubst(pairs[1][2], s) rest == Tail(pairs) IN
       IF X[1] = "stv" THEN (IF Y[1] = "stv" /\ Y[2] = X[2] THEN Unif(rest, s)
                             ELSE IF OccursTV(X[2], Y) THEN FALSE ELSE Unif(rest, Bind(s, X[2], Y)))
       ELSE IF Y[1] = "stv" THEN (IF OccursTV(Y[2], X) THEN FALSE ELSE Unif(rest, Bind(s, Y[2], X)))
       ELSE IF X[1] = "tc" /\ Y[1] = "tc" /\ X[2] = Y[2] /\ Len(X[3]) = Len(Y[3])
            THEN Unif([i \in 1..Len(X[3]) |-> <<X[3][i], Y[3][i]>>] \o rest, s)
       ELSE FALSE
Overlaps(T1, T2) == Unif(<< <<Rename(T1, "L"), Rename(T2, "R")>> >>, <<>>)

\* ------------------------------------------------------------------ the literal conditions
RECURSIVE ConstsOf(_)
ConstsOf(t) == CASE t[1] = "const" -> {t} [] t[1] = "comb" -> ConstsOf(t[2]) \cup ConstsOf(t[3])
                 [] t[1] = "abs" -> ConstsOf(t[3]) [] OTHER -> {}
\* free variables: variables and schematic variables
FreeOf(t) == FreeVarsOf(t) \cup SVarsOf(t)
ArgSet(d) == { d.args[i] : i \in 1..Len(d.args) }
ArgsDistinctVars(d) == /\ \A i \in 1..Len(d.args) : d.args[i][1] = "var"
                       /\ \A i, j \in 1..Len(d.args) : i # j => d.args[i] # d.args[j]
NoExtraFree(d) == FreeOf(d.rhs) \subseteq ArgSet(d)
NoExtraTVars(d) == TVarsOfTerm(d.rhs) \subseteq TyVarsOf(d.T)
NoSelfOverlap(d) == \A c \in ConstsOf(d.rhs) : c[2] = d.name => ~Overlaps(c[3], d.T)
SyntacticOK(d) == ArgsDistinctVars(d) /\ NoExtraFree(d) /\ NoExtraTVars(d) /\ NoSelfOverlap(d)
\* names of the conditions that fail (for the verdict file)
FailedConds(d) == (IF ArgsDistinctVars(d) THEN {} ELSE {"args_distinct_vars"}) \cup (IF NoExtraFree(d) THEN {} ELSE {"extra_free_vars"})
                  \cup (IF NoExtraTVars(d) THEN {} ELSE {"extra_type_vars"}) \cup (IF NoSelfOverlap(d) THEN {} ELSE {"self_occurrence"})

\* ------------------------------------------------------------------ semantic conservativity over finite standard models
\* For every interpretation of the type variables of the constant's OWN type and of the old constants, there is ONE value of the new
\* constant that satisfies the defining equation for all other type variables and all values of the variables.
DefC(d) == <<"const", d.name, d.T>>
Lhs(d) == MkApp(DefC(d), d.args)
Conservative(d, N) ==
  LET C == DefC(d)
      lhs == Lhs(d)
      own == TyVarsOf(d.T)
      others == (TVarsOfTerm(d.rhs) \cup TVarsOfTerm(lhs)) \ own
      syms == (SymsOf(lhs) \cup SymsOf(d.rhs)) \ {C}
      old == { s \in syms : s[1] = "const" }
      vars == syms \ old
  IN \A ta1 \in [own -> Carriers(N)] :
       \A vo \in Assigns(old, ta1) :
         \E v \in Dom(d.T, ta1) :
           \A ta2 \in [others -> Carriers(N)] :
             LET ta == ta1 @@ ta2 IN
             \A va \in Assigns(vars, ta) :
               LET va2 == (C :> v) @@ vo @@ va IN Eval(lhs, va2, <<>>, ta) = Eval(d.rhs, va2, <<>>, ta)
\* Conservative can be evaluated: lhs well-typed and of the type of rhs; base types with small domains; the uninterpreted constants
\* other than the defined one are old constants (other instances of an overloaded name at NON-overlapping types) whose
\* type variables all belong to the constant's own type; no occurrence of the defined name at an overlapping but different type.
CExaminable(d, N) ==
  LET lhs == Lhs(d) C == DefC(d) IN
  /\ d.name \notin Interp
  /\ TypeOf(lhs, <<>>) # Err /\ TypeOf(lhs, <<>>) = TypeOf(d.rhs, <<>>)
  /\ \A T \in TypesIn(lhs) \cup TypesIn(d.rhs) \cup {d.T} : OnlyBase(T) /\ DomSize(T, N) <= 16
  /\ \A c \in (ConstsOf(lhs) \cup ConstsOf(d.rhs)) \ {C} :
        c[2] \in Interp \/ (c[2] = d.name /\ ~Overlaps(c[3], d.T) /\ TyVarsOf(c[3]) \subseteq TyVarsOf(d.T))
  /\ \A c \in ConstsOf(lhs) \cup ConstsOf(d.rhs) : c[2] \in Interp => IsFun(c[3]) \/ c[3] = BoolT
  /\ ProdSizes(SetToSeq((SymsOf(lhs) \cup SymsOf(d.rhs)) \ {C}), 1, N) <= 512

\* ------------------------------------------------------------------ generated extensions are well-typed over the signature
\* csig : association list  name -> declared (most general) type;  tsig : association list  type constructor -> arity
RECURSIVE ToStv(_), TypeWF(_,_), AllTypesOf(_)
ToStv(T) == IF T[1] \in {"tv","stv"} THEN <<"stv", T[2]>> ELSE <<"tc", T[2], [i \in 1..Len(T[3]) |-> ToStv(T[3][i])]>>
TypeWF(T, tsig) == IF T[1] \in {"tv","stv"} THEN TRUE
                   ELSE T[2] \in Keys(tsig) /\ Lookup(tsig, T[2]) = Len(T[3]) /\ \A i \in 1..Len(T[3]) : TypeWF(T[3][i], tsig)
AllTypesOf(t) == CASE t[1] \in {"svar","var","const"} -> {t[3]} [] t[1] = "comb" -> AllTypesOf(t[2]) \cup AllTypesOf(t[3])
                   [] t[1] = "abs" -> {t[2]} \cup AllTypesOf(t[3]) [] OTHER -> {}
ConstOK(c, csig) == c[2] \in Keys(csig) /\ TMatch(ToStv(Lookup(csig, c[2])), c[3], <<>>) # ErrAL
\* a proposition of an extension theorem
PropOK(t, csig, tsig) == /\ TypeOf(t, <<>>) = BoolT
                         /\ \A T \in AllTypesOf(t) : TypeWF(T, tsig)
                         /\ \A c \in ConstsOf(t) : ConstOK(c, csig)
=============================================================================
