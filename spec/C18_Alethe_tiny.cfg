SPECIFICATION Spec
CONSTANTS Level = 1
 MutDepth = 1
INVARIANT SchemaTyped
INVARIANT RefSound
INVARIANT DbSound
INVARIANT NearMissRefuted
CHECK_DEADLOCK FALSE
