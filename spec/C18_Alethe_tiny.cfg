SPECIFICATION Spec
CONSTANTS Rich = FALSE
 MutDepth = 1
INVARIANT SchemaTyped
INVARIANT RefSound
INVARIANT DbSound
INVARIANT NearMissRefuted
CHECK_DEADLOCK FALSE
