SPECIFICATION Spec
CONSTANTS Consts = {a, b, c}
 MaxOps = 3
 Queries = TRUE
 ChainMode = FALSE
 EmitAll = FALSE
SYMMETRY Symm
INVARIANT TestCorrect
INVARIANT ExplainCorrect
INVARIANT QueryCorrect
INVARIANT AlwaysSound
INVARIANT RepIdempotent
INVARIANT ClassListsMatch
INVARIANT ForestMatchesRep
INVARIANT ForestLabelsMerged
INVARIANT LookupComplete
CHECK_DEADLOCK FALSE
