--------------------------- MODULE C02_CheckerTrace ---------------------------
(* T-specification for C02.  One event = one proof object run through the real code          *)
(* (harness/drivers/c02.py):                                                                 *)
(*   prf   the object: items [id, rule, arg, prevs, th, sub] (JSON form of C02_Ref items)     *)
(*   ng/g  theory.check_proof(prf, rpt, no_gaps=True/False): oc, final sequent, rpt.gaps      *)
(*   co    the same with compute_only=True (outcome only; used for model conformance)         *)
(*   exts  Theory.checked_extend([Theorem(name, stated, prf)]): oc, installed, axiom reported *)
(*   fx    the variant of the algorithm the code was found to implement (C02_ImplDefs)        *)
(* Clauses (R = RefCheck(prf) with gaps allowed; it is blind to identifiers and citation      *)
(* names, so it is never stricter than the property):                                        *)
(*   AcceptedJustified : a run accepted            => R accepts                               *)
(*   FinalJustified    : ... and returned a sequent => that sequent is one a justified proof   *)
(*                       of this shape may conclude                                           *)
(*   StepsJustified    : ... and every sequent an item carries after the check (g.ths: the     *)
(*                       stated one, or the one check_proof assigned in place) is one that     *)
(*                       R verified at that position, or a weakening of one (an item object   *)
(*                       checked at two positions keeps the sequent of its first check)       *)
(*   NoGapsHonoured    : accepted with no_gaps      => the object contains no placeholder      *)
(*   GapsReported      : accepted                   => reported gaps = placeholders present    *)
(*   ExtensionProved   : theorem installed and no axiom reported => R accepts gap-free and     *)
(*                       some justified conclusion can_prove the stated theorem               *)
(* Divergence (never a failure): the code refuses an object R accepts, or the outcome of a    *)
(* run differs from what the I model (variant fx) predicts.                                   *)
EXTENDS C02_ImplDefs, TraceLib

ToSq(j) == [h |-> { j.h[i] : i \in 1..Len(j.h) }, c |-> j.c]
RECURSIVE FromJ(_)
FromJ(js) == [i \in 1..Len(js) |->
                [id |-> js[i].id, rule |-> js[i].rule, ak |-> js[i].ak, arg |-> js[i].arg, at |-> ToSq(js[i].at),
                 prevs |-> js[i].prevs, th |-> ToSq(js[i].th), sub |-> FromJ(js[i].sub), alias |-> js[i].alias]]
Acc(run) == run.oc = "accepted"
GapsOf(run) == [i \in 1..Len(run.gaps) |-> ToSq(run.gaps[i])]

RunFails(run, nogaps, R, P) ==
  IF ~Acc(run) THEN {}
  ELSE (IF ~R.ok THEN {"AcceptedJustified"} ELSE {})
       \cup (IF R.ok /\ ~IsNone(ToSq(run.final)) /\ ~(\E o \in Finals(R, P) : CanProve(o, ToSq(run.final))) THEN {"FinalJustified"} ELSE {})
       \cup (IF nogaps /\ Placeholders(P) # <<>> THEN {"NoGapsHonoured"} ELSE {})
       \cup (IF ~BagEq(GapsOf(run), Placeholders(P)) THEN {"GapsReported"} ELSE {})
StepFails(run, R) ==
  IF Acc(run) /\ R.ok /\ \E k \in 1..Len(run.ths) : ~(\E o \in At(R.V, run.ths[k].p) : CanProve(o, ToSq(run.ths[k].s)))
  THEN {"StepsJustified"} ELSE {}
ExtFails(x, R, P) ==
  IF x.installed /\ ~x.axiom /\ ~(R.ok /\ R.gaps = <<>> /\ \E f \in Finals(R, P) : CanProve(f, ToSq(x.stated)))
  THEN {"ExtensionProved"} ELSE {}

Verdict(e) ==
  LET P == FromJ(e.prf)
      R == RefCheck(P, FALSE)
      fails == IF R.big THEN {}
               ELSE RunFails(e.ng, TRUE, R, P) \cup RunFails(e.g, FALSE, R, P) \cup StepFails(e.g, R)
                    \cup UNION { ExtFails(e.exts[k], R, P) : k \in 1..Len(e.exts) }
      nt == ~R.big /\ (Acc(e.ng) \/ Acc(e.g) \/ \E k \in 1..Len(e.exts) : e.exts[k].installed)
      refdv == ~R.big /\ R.ok /\ Len(P) > 0 /\ (~Acc(e.g) \/ (R.gaps = <<>> /\ ~Acc(e.ng)))
      \* conformance of the I model with the code
      mg == ImplCheck(P, Opts(FALSE, FALSE), e.fx)
      mn == ImplCheck(P, Opts(TRUE, FALSE), e.fx)
      mc == ImplCheck(P, Opts(FALSE, TRUE), e.fx)
      me == IF e.fx.extng THEN mn ELSE mg
      moddv == \/ mg.acc # Acc(e.g) \/ mn.acc # Acc(e.ng) \/ mc.acc # Acc(e.co)
               \/ (mg.acc /\ Acc(e.g) /\ mg.final # ToSq(e.g.final))
               \/ \E k \in 1..Len(e.exts) :             \* = ImplExtend(stated, P, e.fx), sharing the check_proof result
                     (me.acc /\ (e.fx.extcmp => (~IsNone(me.final) /\ CanProve(me.final, ToSq(e.exts[k].stated)))))
                     # (e.exts[k].installed /\ ~e.exts[k].axiom)
  IN [fails |-> fails, nt |-> nt, refdv |-> refdv, moddv |-> moddv]

Clauses(e) == Verdict(e).fails
Nontrivial(e) == Verdict(e).nt
Diverges(e) == Verdict(e).refdv \/ Verdict(e).moddv
TNext == LET e == Trace[l]  v == Verdict(e) IN
         /\ TStep(e.tid, v.fails, v.nt, v.refdv \/ v.moddv)
         /\ IF v.moddv THEN TLCSet(5, Append(TLCGet(5), [tid |-> e.tid, model |-> "mismatch"])) ELSE TRUE
TSpec == TInit /\ [][TNext]_l
=============================================================================
