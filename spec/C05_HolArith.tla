----------------------------- MODULE C05_HolArith -----------------------------
(* The HOL meaning of closed (and polynomial) arithmetic statements, with EXACT arithmetic.                  *)
(*                                                                                                            *)
(* Terms are in "applied form" (what harness/drivers/c05.py projects real holpy terms to, structurally):      *)
(*     node == << head, tys, args, n >>                                                                       *)
(*   head : name of the constant at the head of the application spine, or "#bin" (a bit0/bit1 numeral of type *)
(*          nat with value n < 2^31), "#bign" (such a numeral >= 2^31: args are its base-10^4 limbs, least    *)
(*          significant first, each as a node <<"#l", <<>>, <<>>, limb>>), "#var" (tys = <<type, name>>),     *)
(*          "#other"/"#none" (outside the fragment)                                                           *)
(*   tys  : the constant's type, flattened:  plus :: nat => nat => nat   is  <<"nat","nat","nat">>            *)
(*   args : the arguments (nodes);   n : only meaningful for "#bin"                                           *)
(* Numerals are exactly as in kernel/term.py: zero / one at each type, of_nat applied to a binary numeral,    *)
(* uminus of those, real_divide of two of those.                                                              *)
(*                                                                                                            *)
(* Val gives the standard meaning at the types that ACTUALLY occur (conventions read off library/nat.json,    *)
(* int.json, real.json, transcendentals.json):                                                                *)
(*   nat : m - n truncated at 0 (n - Suc m = Pre (n - m), Pre 0 = 0);  m DIV 0 = 0, m MOD 0 = m;  n ^ 0 = 1   *)
(*   int : ring operations, no truncation                                                                     *)
(*   real: x / y = x * real_inverse y with real_inverse 0 = 0;  x ^ (0::nat) = 1;  x ^ (y::real) for an       *)
(*         integer y is the integer power, 0 ^ y = 0 for y # 0 (rpow_zero), x ^ -y = real_inverse (x ^ y)     *)
(*   of_nat / of_int : the embeddings;  abs n = (if 0 <= n then n else -n)                                     *)
(* A constant at a type where the library gives it no meaning (uminus / real_divide at nat, ...), anything    *)
(* ill-typed or irrational (sqrt of a non-square, exp, log, sin, pi, non-integer exponents) evaluates to NA:  *)
(* such statements are NOT EXAMINED (never judged) -- except COMPARISONS OF SURDS, see below.                 *)
(* Magnitudes: Val works with TLC's native integers and gives NA beyond Rat.RatLim = 2^30 - 1.  A CLOSED      *)
(* statement that Val cannot decide is evaluated again by BVal, the same meaning over arbitrary-precision     *)
(* integers (lib/BigInt.tla: limb arithmetic, unnormalised rationals compared by cross-multiplication; no     *)
(* division, so DIV / MOD / integer-valued-but-unreduced exponents stay NA there).  BVal is only a            *)
(* fallback: wherever Val decides, its verdict stands (C05_Arith checks that the two agree on the universe).  *)
(* Surds: a closed real comparison (= < <= > >=) one of whose sides BVal cannot evaluate is decided EXACTLY    *)
(* when both sides have the form  q + c * sqrt r  with q, c, r rational (SVal: rationals, sqrt of a rational   *)
(* of either sign -- sqrt x = sgn x * sqrt |x| in holpy --, closed under uminus, abs, + and - with a rational,  *)
(* * and / by a rational, the inverse of a pure root).  The comparison is C05_Surd!SCmp: sign analysis and     *)
(* squaring in arbitrary-precision rational arithmetic, no approximation (laws model-checked in C05_SurdLaws). *)
(* Sums / products of two irrational surds, roots of surds, powers of surds stay NA.                          *)
EXTENDS Integers, Sequences, FiniteSets, Rat, BigInt, C05_Surd

NumT == {"nat", "int", "real"}
NA == <<"na", 0, 1>>
IsNA(v) == v[1] = "na"
Q(v) == <<v[2], v[3]>>
Mk(T, r) == IF RIsOvf(r) THEN NA
            ELSE IF T = "nat" /\ (r[1] < 0 \/ r[2] # 1) THEN NA
            ELSE IF T = "int" /\ r[2] # 1 THEN NA
            ELSE <<T, r[1], r[2]>>
BoolV(b) == <<"bool", IF b THEN 1 ELSE 0, 1>>

\* ---------------------------------------------------------------- builders (the shapes kernel/term.py produces)
BinLit(k) == <<"#bin", <<"nat">>, <<>>, k>>
Num(T, k) == IF k = 0 THEN <<"zero", <<T>>, <<>>, 0>>
             ELSE IF k = 1 THEN <<"one", <<T>>, <<>>, 0>>
             ELSE <<"of_nat", <<"nat", T>>, <<BinLit(k)>>, 0>>
UMinus(T, a) == <<"uminus", <<T, T>>, <<a>>, 0>>
NegNum(T, k) == UMinus(T, Num(T, k))
Bin(op, T, a, b) == <<op, <<T, T, T>>, <<a, b>>, 0>>
Frac(T, p, q) == Bin("real_divide", T, Num(T, p), Num(T, q))
Un(op, S, T, a) == <<op, <<S, T>>, <<a>>, 0>>
Pow(T, E, a, b) == <<"power", <<T, E, T>>, <<a, b>>, 0>>
Rel(r, T, a, b) == <<r, <<T, T, "bool">>, <<a, b>>, 0>>
Not(g) == <<"neg", <<"bool", "bool">>, <<g>>, 0>>
TrueC == <<"true", <<"bool">>, <<>>, 0>>
FalseC == <<"false", <<"bool">>, <<>>, 0>>
VarN(T, nm) == <<"#var", <<T, nm>>, <<>>, 0>>
NoneN == <<"#none", <<>>, <<>>, 0>>
Rels == {"equals", "less", "less_eq", "greater", "greater_eq"}

\* ---------------------------------------------------------------- the meaning
NatMinus(x, y) == LET d == RSub(x, y) IN IF RIsOvf(d) THEN ROvf ELSE IF d[1] < 0 THEN <<0, 1>> ELSE d

RECURSIVE Val(_, _)
Val(e, env) ==
  LET h == e[1]  ts == e[2]  as == e[3]  k == Len(e[3])  nt == Len(e[2])
      a1 == IF k >= 1 THEN Val(as[1], env) ELSE NA
      a2 == IF k >= 2 THEN Val(as[2], env) ELSE NA
      T == IF nt >= 1 THEN ts[1] ELSE ""
      un(S, R) == k = 1 /\ ts = <<S, R>> /\ a1[1] = S                    \* unary constant S => R applied to an S
      bin(S) == k = 2 /\ ts = <<S, S, S>> /\ a1[1] = S /\ a2[1] = S       \* binary operator on S
      rel(S) == k = 2 /\ ts = <<S, S, "bool">> /\ a1[1] = S /\ a2[1] = S
  IN
  CASE h = "#bin" -> IF k = 0 /\ ts = <<"nat">> /\ e[4] >= 0 /\ e[4] <= RatLim THEN <<"nat", e[4], 1>> ELSE NA
    [] h = "#var" -> IF k = 0 /\ nt = 2 /\ T \in NumT /\ ts[2] \in DOMAIN env THEN Mk(T, env[ts[2]]) ELSE NA
    [] h = "zero" -> IF k = 0 /\ nt = 1 /\ T \in NumT THEN <<T, 0, 1>> ELSE NA
    [] h = "one" -> IF k = 0 /\ nt = 1 /\ T \in NumT THEN <<T, 1, 1>> ELSE NA
    [] h = "true" -> IF k = 0 /\ ts = <<"bool">> THEN BoolV(TRUE) ELSE NA
    [] h = "false" -> IF k = 0 /\ ts = <<"bool">> THEN BoolV(FALSE) ELSE NA
    [] h = "plus" -> IF T \in NumT /\ bin(T) THEN Mk(T, RAdd(Q(a1), Q(a2))) ELSE NA
    [] h = "times" -> IF T \in NumT /\ bin(T) THEN Mk(T, RMul(Q(a1), Q(a2))) ELSE NA
    [] h = "minus" -> IF T \in NumT /\ bin(T)
                      THEN (IF T = "nat" THEN Mk(T, NatMinus(Q(a1), Q(a2))) ELSE Mk(T, RSub(Q(a1), Q(a2)))) ELSE NA
    [] h = "uminus" -> IF T \in {"int", "real"} /\ un(T, T) THEN Mk(T, RNeg(Q(a1))) ELSE NA
    [] h = "abs" -> IF T \in NumT /\ un(T, T) THEN Mk(T, RAbsQ(Q(a1))) ELSE NA
    [] h = "Suc" -> IF un("nat", "nat") THEN Mk("nat", RAdd(Q(a1), <<1, 1>>)) ELSE NA
    [] h = "Pre" -> IF un("nat", "nat") THEN Mk("nat", NatMinus(Q(a1), <<1, 1>>)) ELSE NA
    [] h = "bit0" -> IF un("nat", "nat") THEN Mk("nat", RAdd(Q(a1), Q(a1))) ELSE NA
    [] h = "bit1" -> IF un("nat", "nat") THEN Mk("nat", RAdd(RAdd(Q(a1), Q(a1)), <<1, 1>>)) ELSE NA
    [] h = "of_nat" -> IF nt = 2 /\ ts[2] \in NumT /\ un("nat", ts[2]) THEN Mk(ts[2], Q(a1)) ELSE NA
    [] h = "of_int" -> IF un("int", "real") THEN Mk("real", Q(a1)) ELSE NA
    [] h = "real_divide" -> IF bin("real") THEN Mk("real", RDiv(Q(a1), Q(a2))) ELSE NA
    [] h = "real_inverse" -> IF un("real", "real") THEN Mk("real", RInv(Q(a1))) ELSE NA
    [] h = "nat_divide" -> IF bin("nat") THEN (IF a2[2] = 0 THEN <<"nat", 0, 1>> ELSE <<"nat", a1[2] \div a2[2], 1>>) ELSE NA
    [] h = "nat_modulus" -> IF bin("nat") THEN (IF a2[2] = 0 THEN a1 ELSE <<"nat", a1[2] % a2[2], 1>>) ELSE NA
    [] h = "power" ->
         IF k = 2 /\ nt = 3 /\ T \in NumT /\ ts[3] = T /\ a1[1] = T /\ a2[1] = ts[2]
         THEN (IF ts[2] = "nat" THEN Mk(T, RPow(Q(a1), a2[2]))
               ELSE IF ts[2] = "real" /\ T = "real"
               THEN (IF a2[3] = 1 THEN (IF a2[2] >= 0 THEN Mk(T, RPow(Q(a1), a2[2])) ELSE Mk(T, RInv(RPow(Q(a1), -a2[2]))))
                     ELSE IF a1[2] = 0 THEN <<T, 0, 1>>                   \* rpow_zero, exponent # 0
                     ELSE IF Q(a1) = <<1, 1>> THEN a1                      \* rpow_one
                     ELSE NA)                                              \* a root: not examined
               ELSE NA)
         ELSE NA
    [] h = "sqrt" -> \* sqrt x = (SOME y. real_sgn y = real_sgn x /\ y ^ 2 = abs x): exact only on squares of rationals
         IF un("real", "real") /\ RIsSquare(RAbs(a1[2])) /\ RIsSquare(a1[3])
         THEN <<"real", RSgn(a1[2]) * RISqrt(RAbs(a1[2])), RISqrt(a1[3])>> ELSE NA
    [] h \in {"less", "less_eq", "greater", "greater_eq"} ->
         IF T \in NumT /\ rel(T)
         THEN LET c == RCmp(Q(a1), Q(a2)) IN
              IF c = 2 THEN NA
              ELSE BoolV(CASE h = "less" -> c = -1 [] h = "less_eq" -> c # 1 [] h = "greater" -> c = 1 [] OTHER -> c # -1)
         ELSE NA
    [] h = "equals" -> IF (T \in NumT \/ T = "bool") /\ rel(T) THEN BoolV(Q(a1) = Q(a2)) ELSE NA
    [] h = "neg" -> IF un("bool", "bool") THEN BoolV(a1[2] = 0) ELSE NA
    [] h = "conj" -> IF bin("bool") THEN BoolV(a1[2] = 1 /\ a2[2] = 1) ELSE NA
    [] h = "disj" -> IF bin("bool") THEN BoolV(a1[2] = 1 \/ a2[2] = 1) ELSE NA
    [] h = "implies" -> IF bin("bool") THEN BoolV(a1[2] = 0 \/ a2[2] = 1) ELSE NA
    [] OTHER -> NA

\* ---------------------------------------------------------------- the same meaning over big integers (closed terms only)
NAb == <<"na", BZero, BOne>>
QB(v) == <<v[2], v[3]>>
BMkV(T, r) == IF T = "nat" /\ (r[2] # BOne \/ r[1][1] < 0) THEN NAb
              ELSE IF T = "int" /\ r[2] # BOne THEN NAb
              ELSE <<T, r[1], r[2]>>
BBoolV(b) == <<"bool", IF b THEN BOne ELSE BZero, BOne>>
QOne == QInt(BOne)
BNatMinus(x, y) == IF QCmp(x, y) <= 0 THEN QZero ELSE QSub(x, y)
\* x ^ n for a native 0 <= n; NA-marker <<BZero, BZero>> (denominator 0) when the result would be unreasonably long
QPowBig == <<BZero, BZero>>
QPowG(x, n) == IF n = 0 THEN QOne
               ELSE IF n > BPowMax \/ n * (Len(x[1][2]) + Len(x[2][2])) > 400 THEN QPowBig ELSE QPowRec(x, n)
BMkP(T, r) == IF r = QPowBig THEN NAb ELSE BMkV(T, r)
LimbsOf(as) == [i \in 1..Len(as) |-> as[i][4]]
\* the value of a real term as a surd: << "s", q, s >> for q + ssqrt s, or SNA
SNA == <<"na", QZero, QZero>>
SMk(a) == <<"s", a[1], a[2]>>
SOf(v) == <<v[2], v[3]>>
RECURSIVE BVal(_), SVal(_)
BVal(e) ==
  LET h == e[1]  ts == e[2]  as == e[3]  k == Len(e[3])  nt == Len(e[2])
      a1 == IF k >= 1 THEN BVal(as[1]) ELSE NAb
      a2 == IF k >= 2 THEN BVal(as[2]) ELSE NAb
      T == IF nt >= 1 THEN ts[1] ELSE ""
      un(S, R) == k = 1 /\ ts = <<S, R>> /\ a1[1] = S
      bin(S) == k = 2 /\ ts = <<S, S, S>> /\ a1[1] = S /\ a2[1] = S
      rel(S) == k = 2 /\ ts = <<S, S, "bool">> /\ a1[1] = S /\ a2[1] = S
      small(v) == BSmall(v[2]) /\ v[3] = BOne
      s1 == IF k >= 1 THEN SVal(as[1]) ELSE SNA
      s2 == IF k >= 2 THEN SVal(as[2]) ELSE SNA
      srel == k = 2 /\ ts = <<"real", "real", "bool">> /\ s1[1] = "s" /\ s2[1] = "s"       \* a comparison of two surds
  IN
  CASE h = "#bin" -> IF k = 0 /\ ts = <<"nat">> /\ e[4] >= 0 THEN <<"nat", BFromInt(e[4]), BOne>> ELSE NAb
    [] h = "#bign" -> IF k >= 1 /\ ts = <<"nat">> /\ (\A i \in 1..k : as[i][1] = "#l" /\ Len(as[i][3]) = 0) /\ BLimbsOk(LimbsOf(as))
                      THEN <<"nat", BFromLimbs(LimbsOf(as)), BOne>> ELSE NAb
    [] h = "zero" -> IF k = 0 /\ nt = 1 /\ T \in NumT THEN <<T, BZero, BOne>> ELSE NAb
    [] h = "one" -> IF k = 0 /\ nt = 1 /\ T \in NumT THEN <<T, BOne, BOne>> ELSE NAb
    [] h = "true" -> IF k = 0 /\ ts = <<"bool">> THEN BBoolV(TRUE) ELSE NAb
    [] h = "false" -> IF k = 0 /\ ts = <<"bool">> THEN BBoolV(FALSE) ELSE NAb
    [] h = "plus" -> IF T \in NumT /\ bin(T) THEN BMkV(T, QAdd(QB(a1), QB(a2))) ELSE NAb
    [] h = "times" -> IF T \in NumT /\ bin(T) THEN BMkV(T, QMul(QB(a1), QB(a2))) ELSE NAb
    [] h = "minus" -> IF T \in NumT /\ bin(T)
                      THEN (IF T = "nat" THEN BMkV(T, BNatMinus(QB(a1), QB(a2))) ELSE BMkV(T, QSub(QB(a1), QB(a2)))) ELSE NAb
    [] h = "uminus" -> IF T \in {"int", "real"} /\ un(T, T) THEN BMkV(T, QNeg(QB(a1))) ELSE NAb
    [] h = "abs" -> IF T \in NumT /\ un(T, T) THEN BMkV(T, QAbs(QB(a1))) ELSE NAb
    [] h = "Suc" -> IF un("nat", "nat") THEN BMkV("nat", QAdd(QB(a1), QOne)) ELSE NAb
    [] h = "Pre" -> IF un("nat", "nat") THEN BMkV("nat", BNatMinus(QB(a1), QOne)) ELSE NAb
    [] h = "bit0" -> IF un("nat", "nat") THEN BMkV("nat", QAdd(QB(a1), QB(a1))) ELSE NAb
    [] h = "bit1" -> IF un("nat", "nat") THEN BMkV("nat", QAdd(QAdd(QB(a1), QB(a1)), QOne)) ELSE NAb
    [] h = "of_nat" -> IF nt = 2 /\ ts[2] \in NumT /\ un("nat", ts[2]) THEN BMkV(ts[2], QB(a1)) ELSE NAb
    [] h = "of_int" -> IF un("int", "real") THEN BMkV("real", QB(a1)) ELSE NAb
    [] h = "real_divide" -> IF bin("real") THEN BMkV("real", QDiv(QB(a1), QB(a2))) ELSE NAb
    [] h = "real_inverse" -> IF un("real", "real") THEN BMkV("real", QInv(QB(a1))) ELSE NAb
    [] h = "nat_divide" -> IF bin("nat") /\ small(a1) /\ small(a2)
                           THEN (IF a2[2] = BZero THEN <<"nat", BZero, BOne>> ELSE <<"nat", BFromInt(BToInt(a1[2]) \div BToInt(a2[2])), BOne>>) ELSE NAb
    [] h = "nat_modulus" -> IF bin("nat") /\ small(a1) /\ small(a2)
                            THEN (IF a2[2] = BZero THEN a1 ELSE <<"nat", BFromInt(BToInt(a1[2]) % BToInt(a2[2])), BOne>>) ELSE NAb
    [] h = "power" ->
         IF k = 2 /\ nt = 3 /\ T \in NumT /\ ts[3] = T /\ a1[1] = T /\ a2[1] = ts[2]
         THEN (IF ts[2] = "nat" THEN (IF small(a2) THEN BMkP(T, QPowG(QB(a1), BToInt(a2[2]))) ELSE NAb)
               ELSE IF ts[2] = "real" /\ T = "real"
               THEN (IF QSgn(QB(a2)) = 0 THEN <<T, BOne, BOne>>                       \* rpow_0
                     ELSE IF small(a2)
                     THEN (IF a2[2][1] > 0 THEN BMkP(T, QPowG(QB(a1), BToInt(a2[2])))
                           ELSE LET r == QPowG(QB(a1), -BToInt(a2[2])) IN IF r = QPowBig THEN NAb ELSE BMkV(T, QInv(r)))
                     ELSE IF QSgn(QB(a1)) = 0 THEN <<T, BZero, BOne>>                 \* rpow_zero, exponent # 0
                     ELSE IF QCmp(QB(a1), QOne) = 0 THEN <<T, BOne, BOne>>            \* rpow_one
                     ELSE NAb)
               ELSE NAb)
         ELSE NAb
    [] h \in {"less", "less_eq", "greater", "greater_eq"} ->
         IF T \in NumT /\ rel(T)
         THEN LET c == QCmp(QB(a1), QB(a2)) IN
              BBoolV(CASE h = "less" -> c = -1 [] h = "less_eq" -> c # 1 [] h = "greater" -> c = 1 [] OTHER -> c # -1)
         ELSE IF srel
         THEN LET c == SCmp(SOf(s1), SOf(s2)) IN
              BBoolV(CASE h = "less" -> c = -1 [] h = "less_eq" -> c # 1 [] h = "greater" -> c = 1 [] OTHER -> c # -1)
         ELSE NAb
    [] h = "equals" -> IF T \in NumT /\ rel(T) THEN BBoolV(QCmp(QB(a1), QB(a2)) = 0)
                       ELSE IF T = "bool" /\ rel(T) THEN BBoolV(a1[2] = a2[2])
                       ELSE IF srel THEN BBoolV(SCmp(SOf(s1), SOf(s2)) = 0) ELSE NAb
    [] h = "neg" -> IF un("bool", "bool") THEN BBoolV(a1[2] = BZero) ELSE NAb
    [] h = "conj" -> IF bin("bool") THEN BBoolV(a1[2] = BOne /\ a2[2] = BOne) ELSE NAb
    [] h = "disj" -> IF bin("bool") THEN BBoolV(a1[2] = BOne \/ a2[2] = BOne) ELSE NAb
    [] h = "implies" -> IF bin("bool") THEN BBoolV(a1[2] = BZero \/ a2[2] = BOne) ELSE NAb
    [] OTHER -> NAb
SVal(e) ==
  LET v == BVal(e) IN
  IF v[1] = "real" THEN <<"s", QB(v), QZero>>
  ELSE IF v[1] # "na" THEN SNA
  ELSE
  LET h == e[1]  ts == e[2]  as == e[3]  k == Len(e[3])
      x == IF k >= 1 THEN SVal(as[1]) ELSE SNA
      y == IF k >= 2 THEN SVal(as[2]) ELSE SNA
      un == k = 1 /\ ts = <<"real", "real">> /\ x[1] = "s"
      bin == k = 2 /\ ts = <<"real", "real", "real">> /\ x[1] = "s" /\ y[1] = "s"
      X == SOf(x)  Y == SOf(y)
  IN
  CASE h = "sqrt" -> IF un /\ SIsRat(X) THEN SMk(SRoot(X[1])) ELSE SNA
    [] h = "uminus" -> IF un THEN SMk(SNeg(X)) ELSE SNA
    [] h = "abs" -> IF un THEN SMk(SAbs(X)) ELSE SNA
    [] h = "real_inverse" -> IF un /\ SHasInv(X) THEN SMk(SInv(X)) ELSE SNA
    [] h = "plus" -> IF bin /\ SIsRat(Y) THEN SMk(SAddQ(X, Y[1])) ELSE IF bin /\ SIsRat(X) THEN SMk(SAddQ(Y, X[1])) ELSE SNA
    [] h = "minus" -> IF bin /\ SIsRat(Y) THEN SMk(SAddQ(X, QNeg(Y[1]))) ELSE IF bin /\ SIsRat(X) THEN SMk(SAddQ(SNeg(Y), X[1])) ELSE SNA
    [] h = "times" -> IF bin /\ SIsRat(Y) THEN SMk(SMulQ(X, Y[1])) ELSE IF bin /\ SIsRat(X) THEN SMk(SMulQ(Y, X[1])) ELSE SNA
    [] h = "real_divide" -> IF bin /\ SIsRat(Y) THEN SMk(SMulQ(X, QInv(Y[1])))                \* x / 0 = 0
                            ELSE IF bin /\ SIsRat(X) /\ SHasInv(Y) THEN SMk(SMulQ(SInv(Y), X[1])) ELSE SNA
    [] OTHER -> SNA
BSeqTruth(hs, c) == LET hv == [i \in 1..Len(hs) |-> BVal(hs[i])]  cv == BVal(c) IN
                    IF \E i \in 1..Len(hs) : hv[i][1] # "bool" THEN "NA"
                    ELSE IF \E i \in 1..Len(hs) : hv[i][2] = BZero THEN "T"
                    ELSE IF cv[1] # "bool" THEN "NA" ELSE IF cv[2] = BOne THEN "T" ELSE "F"
BTruth(g) == BSeqTruth(<<>>, g)

\* ---------------------------------------------------------------- free variables and the grid
RECURSIVE VarsOf(_)
VarsOf(e) == IF e[1] = "#var" THEN {e[2]} ELSE UNION { VarsOf(e[3][i]) : i \in 1..Len(e[3]) }
GridOf(T) == CASE T = "nat" -> {<<0, 1>>, <<1, 1>>, <<2, 1>>, <<5, 1>>}
               [] T = "int" -> {<<-3, 1>>, <<-1, 1>>, <<0, 1>>, <<1, 1>>, <<2, 1>>}
               [] T = "real" -> {<<-2, 1>>, <<-1, 2>>, <<0, 1>>, <<1, 1>>, <<3, 2>>, <<3, 1>>}
               [] OTHER -> {}
AllGrid == GridOf("nat") \cup GridOf("int") \cup GridOf("real")
VarsOK(vs) == /\ Cardinality(vs) <= 3
              /\ \A v \in vs : Len(v) = 2 /\ v[1] \in NumT
              /\ \A v, w \in vs : v[2] = w[2] => v = w
Envs(vs) == LET names == { v[2] : v \in vs }
                tyOf(nm) == (CHOOSE v \in vs : v[2] = nm)[1] IN
            { f \in [names -> AllGrid] : \A nm \in names : f[nm] \in GridOf(tyOf(nm)) }

\* truth of a sequent  hs |- c  (hs a tuple of nodes): "F" = false at some grid point (a genuine counterexample),
\* "T" = true at every grid point (for a closed statement: true), "NA" = not examinable
SeqAt(hs, c, env) == LET hv == [i \in 1..Len(hs) |-> Val(hs[i], env)]  cv == Val(c, env) IN
                     IF \E i \in 1..Len(hs) : hv[i][1] # "bool" THEN "NA"
                     ELSE IF \E i \in 1..Len(hs) : hv[i][2] = 0 THEN "T"
                     ELSE IF cv[1] # "bool" THEN "NA" ELSE IF cv[2] = 1 THEN "T" ELSE "F"
SeqTruthS(hs, c) == LET vs == VarsOf(c) \cup UNION { VarsOf(hs[i]) : i \in 1..Len(hs) } IN
                    IF ~VarsOK(vs) THEN "NA"
                    ELSE LET rs == { SeqAt(hs, c, env) : env \in Envs(vs) } IN
                         IF "F" \in rs THEN "F" ELSE IF rs = {"T"} THEN "T" ELSE "NA"
\* the verdict of the native evaluation stands; only a closed sequent it cannot decide is evaluated over big integers
SeqTruth(hs, c) == LET s == SeqTruthS(hs, c) IN
                   IF s # "NA" THEN s
                   ELSE IF VarsOf(c) = {} /\ (\A i \in 1..Len(hs) : VarsOf(hs[i]) = {}) THEN BSeqTruth(hs, c) ELSE "NA"
Truth(g) == SeqTruth(<<>>, g)
Closed(g) == VarsOf(g) = {}
NoEnv == [x \in {} |-> <<0, 1>>]
CVal(e) == Val(e, NoEnv)

\* ---------------------------------------------------------------- what each trusted step is meant for
Steps == {"nat_eval", "int_eval", "real_eval", "int_const_ineq", "real_const_ineq", "real_const_eq", "real_compare",
          "const_inequality", "real_norm", "real_eq_comparison"}
IsRel(g) == g[1] \in Rels /\ Len(g[3]) = 2 /\ Len(g[2]) = 3
ArgT(g) == g[2][1]
Strip(g) == IF g[1] = "neg" /\ Len(g[3]) = 1 THEN g[3][1] ELSE g
InDomain(s, g) ==
  CASE s = "nat_eval" -> g[1] = "equals" /\ IsRel(g) /\ ArgT(g) = "nat"
    [] s = "int_eval" -> g[1] = "equals" /\ IsRel(g) /\ ArgT(g) = "int"
    [] s = "real_eval" -> g[1] = "equals" /\ IsRel(g) /\ ArgT(g) = "real"
    [] s = "real_norm" -> g[1] = "equals" /\ IsRel(g) /\ ArgT(g) = "real"
    [] s = "int_const_ineq" -> IsRel(Strip(g)) /\ ArgT(Strip(g)) = "int"
    [] s = "real_const_ineq" -> IsRel(Strip(g)) /\ ArgT(Strip(g)) = "real"
    [] s = "real_const_eq" -> IsRel(g) /\ ArgT(g) = "real"
    [] s = "real_compare" -> IsRel(g) /\ g[1] # "equals" /\ ArgT(g) = "real"
    [] s = "const_inequality" -> IsRel(Strip(g)) /\ ArgT(Strip(g)) = "real" /\ (g[1] = "neg" => Strip(g)[1] = "equals")
    [] s = "real_eq_comparison" -> g[1] = "equals" /\ IsRel(g) /\ ArgT(g) = "bool"
    [] OTHER -> FALSE
\* the statement a step is documented to return for the goal g: g itself, or
\* (const_ineq steps) the comparison or its negation, (real_const_eq) g <--> true / g <--> false
Asked(s, g, c) ==
  CASE s \in {"int_const_ineq", "real_const_ineq"} -> c = Strip(g) \/ c = Not(Strip(g))
    [] s = "real_const_eq" -> c = Rel("equals", "bool", g, TrueC) \/ c = Rel("equals", "bool", g, FalseC)
    [] OTHER -> c = g
=============================================================================
