------------------------------ MODULE C07_Args ------------------------------
(* S-specification for C07, proof-step arguments: every argument signature that parser.parse_args knows     *)
(*   None | str | Term | Inst | TyInst | (str, Type) | (str, Term) | (str, Inst) | (str, Term, Term) | [Term] *)
(* with the values TLC can enumerate over small sets of names, types and terms (structural codec encoding of  *)
(* spec/lib/HolTerms, so that harness/drivers/c07.py decodes them into real holpy objects).                    *)
(* Instantiations: every pair (type part, term part) over TyNames / TmNames -- the names OVERLAP ('a and a),   *)
(* parts may be empty, values are variables, operators, lambda terms and terms that are printed with a type   *)
(* annotation.                                                                                              *)
(* The model is the text format as coded: printer.print_str_args writes  name, {'k: T, ..., k: t, ...}  and   *)
(* parser.parse_args splits at the first comma, reads the braces into ONE Python dict (HOLTransformer.inst:  *)
(* dict(args), a later entry with the same key replaces the earlier one) and parse_inst separates the type   *)
(* part from the term part by the key.  Invariant ArgRoundTrip: Parse(sig, Print(v)) = v for every value.     *)
(* Each value is emitted as a vector (PrintT <<"ARG", json>>); the real printer / parser are run on it under  *)
(* every supported setting and C07_SyntaxTrace judges the result (clauses RoundTripParses, RoundTrip,         *)
(* PrintStable).                                                                                             *)
EXTENDS HolTerms, Json
CONSTANTS TyNames, TmNames, NTy, NTm, NList
\* ---- values (types and terms of theory real, codec encoding)
NatT == <<"tc", "nat", <<>>>>
IntT == <<"tc", "int", <<>>>>
SetT(T) == <<"tc", "set", <<T>>>>
ListT(T) == <<"tc", "list", <<T>>>>
TvA == <<"tv", "a">>
TvB == <<"tv", "b">>
V(nm, T) == <<"var", nm, T>>
C(nm, T) == <<"const", nm, T>>
Bin(op, T, R, x, y) == App(App(C(op, FunT(T, FunT(T, R))), x), y)
vm == V("m", NatT)
vn == V("n", NatT)
vf == V("f", FunT(NatT, NatT))
One == C("one", NatT)
Ins(x, s) == App(App(C("insert", FunT(NatT, FunT(SetT(NatT), SetT(NatT)))), x), s)
Emp(T) == C("empty_set", SetT(T))
TyVals == << NatT, FunT(NatT, BoolT), TvB, SetT(FunT(TvA, NatT)), FunT(FunT(NatT, NatT), ListT(BoolT)) >>
TmVals == << vm,                                                         \* a variable
             Lambda(V("x", NatT), Bin("less", NatT, BoolT, V("x", NatT), vn)),      \* %x. x < n
             Emp(NatT),                                                  \* ({}::nat set): printed with an annotation
             Bin("plus", NatT, NatT, App(vf, vm), One),                    \* f m + 1
             Lambda(V("x", TvA), V("x", TvA)),                           \* %x::'a. x
             Ins(vm, Ins(vn, Emp(NatT))),                                  \* {m, n}: commas inside the value
             Bin("equals", IntT, BoolT, C("zero", IntT), V("i", IntT)),  \* (0::int) = i
             App(C("all", FunT(FunT(NatT, BoolT), BoolT)), Lambda(vm, Bin("less", NatT, BoolT, vm, App(vf, vm)))) >>   \* !m. m < f m  (bound name = a free name elsewhere)
Tys == { TyVals[i] : i \in 1..NTy }          \* the values used in the products (instantiations over several names, lists)
Tms == { TmVals[i] : i \in 1..NTm }
TysAll == { TyVals[i] : i \in 1..Len(TyVals) }    \* every value: single entries, single arguments, pairs
TmsAll == { TmVals[i] : i \in 1..Len(TmVals) }
ThNames == {"conjI", "nat_induct"}
\* ---- association lists sorted by name (the printer sorts the entries)
NameOrder == <<"A", "a", "b", "c", "x">>
Pos(s) == CHOOSE i \in 1..Len(NameOrder) : NameOrder[i] = s
RECURSIVE SortNames(_)
SortNames(S) == IF S = {} THEN <<>> ELSE LET x == CHOOSE y \in S : \A z \in S : Pos(y) <= Pos(z) IN <<x>> \o SortNames(S \ {x})
ALs(names, vals) == UNION { { [i \in 1..Len(SortNames(D)) |-> <<SortNames(D)[i], g[SortNames(D)[i]]>>] : g \in [D -> vals] } : D \in SUBSET names }
Insts == { <<"inst", ty, tm>> : ty \in ALs(TyNames, Tys), tm \in ALs(TmNames, Tms) }
Lists == UNION { [1..k -> Tms] : k \in 0..NList }
Singles == { <<"inst", <<>>, << <<k, t>> >> >> : k \in TmNames, t \in TmsAll } \cup { <<"inst", << <<k, T>> >>, <<>> >> : k \in TyNames, T \in TysAll }
           \cup { <<"inst", << <<k, T>> >>, << <<k, t>> >> >> : k \in TyNames \cap TmNames, T \in TysAll, t \in TmsAll }     \* 'k and k
Universe ==
  Insts \cup Singles \cup { <<"strinst", s, i[2], i[3]>> : s \in {"conjI"}, i \in Insts \cup Singles }
  \cup { <<"tyinst", ty>> : ty \in ALs(TyNames, Tys) } \cup { <<"tyinst", << <<k, T>> >> >> : k \in TyNames, T \in TysAll }
  \cup { <<"term", t>> : t \in TmsAll }
  \cup { <<"strtype", s, T>> : s \in {"x", "a"}, T \in TysAll }
  \cup { <<"strterm", s, t>> : s \in ThNames, t \in TmsAll }
  \cup { <<"strterm2", s, t, u>> : s \in {"nat_induct"}, t \in TmsAll, u \in TmsAll }
  \cup { <<"terms", l>> : l \in Lists } \cup { <<"terms", <<t>>>> : t \in TmsAll }
  \cup { <<"str", s>> : s \in ThNames } \cup { <<"none">> }
\* ---- the text format: tokens <<kind, payload>>; values are opaque tokens (their own round trip is C07_Syntax's business)
Tok(k, x) == <<k, x>>
CommaT == Tok("sym", ",")
TKey(nm) == "'" \o nm              \* HOLTransformer.tvar_pair keeps the quote in the key
VKey(nm) == nm
RECURSIVE JoinT(_,_,_)
JoinT(items, k, acc) == IF k > Len(items) THEN acc ELSE JoinT(items, k + 1, (IF k = 1 THEN acc ELSE Append(acc, CommaT)) \o items[k])
PrintInst(ty, tm) == <<Tok("sym", "{")>>
   \o JoinT([k \in 1..Len(ty) |-> <<Tok("key", TKey(ty[k][1])), Tok("type", ty[k][2])>>] \o [k \in 1..Len(tm) |-> <<Tok("key", VKey(tm[k][1])), Tok("term", tm[k][2])>>], 1, <<>>)
   \o <<Tok("sym", "}")>>
PrintTyInst(ty) == <<Tok("sym", "{")>> \o JoinT([k \in 1..Len(ty) |-> <<Tok("key", ty[k][1]), Tok("type", ty[k][2])>>], 1, <<>>) \o <<Tok("sym", "}")>>
PrintArg(v) ==
  CASE v[1] = "inst" -> PrintInst(v[2], v[3])
    [] v[1] = "strinst" -> <<Tok("name", v[2]), CommaT>> \o PrintInst(v[3], v[4])
    [] v[1] = "tyinst" -> PrintTyInst(v[2])
    [] v[1] = "term" -> <<Tok("term", v[2])>>
    [] v[1] = "strtype" -> <<Tok("name", v[2]), CommaT, Tok("type", v[3])>>
    [] v[1] = "strterm" -> <<Tok("name", v[2]), CommaT, Tok("term", v[3])>>
    [] v[1] = "strterm2" -> <<Tok("name", v[2]), CommaT, Tok("term", v[3]), CommaT, Tok("term", v[4])>>
    [] v[1] = "terms" -> JoinT([k \in 1..Len(v[2]) |-> <<Tok("term", v[2][k])>>], 1, <<>>)
    [] v[1] = "str" -> <<Tok("name", v[2])>>
    [] v[1] = "none" -> <<>>
\* ---- the parser: entries of the braces go into one dict (a function; the LAST entry for a key wins), then split by key
Entries(ts) == LET body == SubSeq(ts, 2, Len(ts) - 1) IN      \* <<key, value token>> per entry; entries are key value [comma]
   [k \in 1..((Len(body) + 1) \div 3) |-> <<body[3 * k - 2][2], body[3 * k - 1]>>]
DictOf(es) == [key \in { es[k][1] : k \in 1..Len(es) } |-> es[CHOOSE k \in 1..Len(es) : es[k][1] = key /\ \A j \in 1..Len(es) : es[j][1] = key => j <= k][2]]
Quoted(key) == Len(key) > 0 /\ SubSeq(key, 1, 1) = "'"
Unquote(key) == SubSeq(key, 2, Len(key))
ParseInst(ts) == LET d == DictOf(Entries(ts))
                     tks == { key \in DOMAIN d : Quoted(key) }
                     vks == DOMAIN d \ tks
                 IN << [i \in 1..Len(SortNames({Unquote(x) : x \in tks})) |-> LET nm == SortNames({Unquote(x) : x \in tks})[i] IN <<nm, d[TKey(nm)][2]>>],
                       [i \in 1..Len(SortNames(vks)) |-> <<SortNames(vks)[i], d[SortNames(vks)[i]][2]>>] >>
ParseTyInst(ts) == LET d == DictOf(Entries(ts)) IN [i \in 1..Len(SortNames(DOMAIN d)) |-> <<SortNames(DOMAIN d)[i], d[SortNames(DOMAIN d)[i]][2]>>]
Rest(ts) == SubSeq(ts, 3, Len(ts))          \* args.split(",", 1): what follows the name and the first comma
RECURSIVE TermList(_,_,_)
TermList(ts, k, acc) == IF k > Len(ts) THEN acc ELSE TermList(ts, k + 2, Append(acc, ts[k][2]))
ParseArg(sig, ts) ==
  CASE sig = "inst" -> LET r == ParseInst(ts) IN <<"inst", r[1], r[2]>>
    [] sig = "strinst" -> LET r == ParseInst(Rest(ts)) IN <<"strinst", ts[1][2], r[1], r[2]>>
    [] sig = "tyinst" -> <<"tyinst", ParseTyInst(ts)>>
    [] sig = "term" -> <<"term", ts[1][2]>>
    [] sig = "strtype" -> <<"strtype", ts[1][2], Rest(ts)[1][2]>>
    [] sig = "strterm" -> <<"strterm", ts[1][2], Rest(ts)[1][2]>>
    [] sig = "strterm2" -> LET l == TermList(Rest(ts), 1, <<>>) IN <<"strterm2", ts[1][2], l[1], l[2]>>
    [] sig = "terms" -> <<"terms", TermList(ts, 1, <<>>)>>
    [] sig = "str" -> <<"str", ts[1][2]>>
    [] sig = "none" -> <<"none">>
\* ---- every value is a state
VARIABLES v, phase
Init == v \in Universe /\ phase = "print"
Next == /\ phase = "print" /\ phase' = "emitted" /\ UNCHANGED v
        /\ PrintT(<<"ARG", ToJson([sig |-> v[1], v |-> v])>>)
Spec == Init /\ [][Next]_<<v, phase>>
ArgRoundTrip == ParseArg(v[1], PrintArg(v)) = v
=============================================================================
