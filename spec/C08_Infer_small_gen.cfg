SPECIFICATION Spec
CONSTANTS MaxSize = 7
 MaxSteps = 2
 NV = 3
 MaxAtoms = 3
 AtomKinds = {"A", "E", "L", "F", "P", "N", "B", "M"}
 LongKinds = {"A", "L", "F"}
 ShortKinds = {"SP", "SN", "SE", "SA"}
 ShortLen = 2
 DeclAtoms = 2
 Variants <- VariantsQuick
 ExactOccursCheck = TRUE
 AnnotVarCheck = TRUE
 WithModel = FALSE
INVARIANT TypedOK
INVARIANT ContractSane
INVARIANT Record
POSTCONDITION Post
CHECK_DEADLOCK FALSE
