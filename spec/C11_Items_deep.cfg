SPECIFICATION Spec
CONSTANTS Depth = 2
 N = 2
 Rich = TRUE
INVARIANT ConservativeIfOK
INVARIANT AllExaminable
INVARIANT AddedWellTyped
INVARIANT OnlyOKAdded
INVARIANT UniqueGround
POSTCONDITION Post
CHECK_DEADLOCK FALSE
