SPECIFICATION Spec
CONSTANTS
  NProc = 2
  NGuards = 6
  NAsgs = 6
  NInvs = 5
  TwoArr = FALSE
  Record = FALSE
  MaxSteps = 0
  WpMulti = 2
  DoEmit = TRUE
  DoWp = TRUE
  DoRun = TRUE
INVARIANT WpExact
INVARIANT Consistent
INVARIANT Classified
CHECK_DEADLOCK FALSE
