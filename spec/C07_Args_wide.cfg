SPECIFICATION Spec
CONSTANTS
  TyNames = {"a", "b"}
  TmNames = {"A", "a", "b"}
  NTy = 4
  NTm = 4
  NList = 3
INVARIANT ArgRoundTrip
CHECK_DEADLOCK FALSE
