SPECIFICATION Spec
CONSTANTS
  TyNames = {"a", "b"}
  TmNames = {"A", "a", "b"}
  NTy = 5
  NTm = 8
  NList = 3
INVARIANT ArgRoundTrip
CHECK_DEADLOCK FALSE
