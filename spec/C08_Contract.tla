---------------------------- MODULE C08_Contract ----------------------------
(* The result contract of type inference (property C08), written from the property     *)
(* statement; constant-level, shared by the S specification C08_Infer and the trace    *)
(* specification C08_InferTrace.                                                       *)
(*   skeleton s : term whose missing types are NoneT = <<"none">>                      *)
(*   ctx        : [vars |-> alist name -> type, svars |-> alist name -> type]          *)
(*   sig        : alist constant name -> declared type (type variables schematic)      *)
(*   r          : the returned term                                                    *)
EXTENDS C08_InferAlgo

NatT == <<"tc","nat",<<>>>>
IntT == <<"tc","int",<<>>>>
RealT == <<"tc","real",<<>>>>
IsLeaf(t) == t[1] \in {"svar","var","const"}

RECURSIVE HasNone(_), Shape(_), Keeps(_,_), DeclKept(_,_,_), VarOccs(_), ConstOccs(_), TypesIn(_), WellFormed(_,_)
\* syntactically a term of the encoding (skeletons: types may be NoneT), no loose bound variable
WellFormed(t, n) == CASE t[1] \in {"svar","var","const"} -> Len(t) = 3
                      [] t[1] = "comb" -> Len(t) = 3 /\ WellFormed(t[2], n) /\ WellFormed(t[3], n)
                      [] t[1] = "abs" -> Len(t) = 3 /\ WellFormed(t[3], n + 1)
                      [] t[1] = "bound" -> Len(t) = 2 /\ t[2] < n
                      [] OTHER -> FALSE
HasNone(t) == CASE IsLeaf(t) -> t[3] = NoneT
                [] t[1] = "comb" -> HasNone(t[2]) \/ HasNone(t[3])
                [] t[1] = "abs" -> t[2] = NoneT \/ HasNone(t[3])
                [] OTHER -> FALSE
\* the shape of a term: everything but the types
Shape(t) == CASE IsLeaf(t) -> <<t[1], t[2], NoneT>>
              [] t[1] = "comb" -> <<"comb", Shape(t[2]), Shape(t[3])>>
              [] t[1] = "abs" -> <<"abs", NoneT, Shape(t[3])>>
              [] OTHER -> t
SameShape(s, r) == Shape(s) = Shape(r)
\* every type given in s is found unchanged at the same position of r   (s and r of the same shape)
Keeps(s, r) == CASE IsLeaf(s) -> s[3] = NoneT \/ s[3] = r[3]
                 [] s[1] = "comb" -> Keeps(s[2], r[2]) /\ Keeps(s[3], r[3])
                 [] s[1] = "abs" -> (s[2] = NoneT \/ s[2] = r[2]) /\ Keeps(s[3], r[3])
                 [] OTHER -> TRUE
\* every un-annotated occurrence of a declared (schematic) variable has its declared type
DeclKept(s, r, ctx) ==
  CASE s[1] = "var" -> (s[3] = NoneT /\ s[2] \in Keys(ctx.vars)) => r[3] = Lookup(ctx.vars, s[2])
    [] s[1] = "svar" -> (s[3] = NoneT /\ s[2] \in Keys(ctx.svars)) => r[3] = Lookup(ctx.svars, s[2])
    [] s[1] = "comb" -> DeclKept(s[2], r[2], ctx) /\ DeclKept(s[3], r[3], ctx)
    [] s[1] = "abs" -> DeclKept(s[3], r[3], ctx)
    [] OTHER -> TRUE
VarOccs(t) == CASE t[1] \in {"var","svar"} -> {t}
                [] t[1] = "comb" -> VarOccs(t[2]) \cup VarOccs(t[3])
                [] t[1] = "abs" -> VarOccs(t[3])
                [] OTHER -> {}
ConstOccs(t) == CASE t[1] = "const" -> {t}
                  [] t[1] = "comb" -> ConstOccs(t[2]) \cup ConstOccs(t[3])
                  [] t[1] = "abs" -> ConstOccs(t[3])
                  [] OTHER -> {}
\* all occurrences of a variable have one type
OneType(r) == \A a \in VarOccs(r) : \A b \in VarOccs(r) : (a[1] = b[1] /\ a[2] = b[2]) => a[3] = b[3]
\* each constant is at an instance of its declared type
ConstInst(r, sig) == \A c \in ConstOccs(r) : c[2] \in Keys(sig) /\ TMatch(Lookup(sig, c[2]), c[3], <<>>) # ErrAL
\* the types written in a term (NoneT left out)
TypesIn(t) == CASE IsLeaf(t) -> {t[3]} \ {NoneT}
                [] t[1] = "comb" -> TypesIn(t[2]) \cup TypesIn(t[3])
                [] t[1] = "abs" -> ({t[2]} \ {NoneT}) \cup TypesIn(t[3])
                [] OTHER -> {}
STVs(S) == UNION { { v \in TyVarsOf(T) : v[1] = "stv" } : T \in S }
AlTypes(al) == { al[i][2] : i \in 1..Len(al) }
\* no leftover inference variable: every schematic type variable of r was given (annotation or declaration);
\* in particular none of the internal ?'_tN
NoLeftover(s, r, ctx) == LET given == STVs(TypesIn(s) \cup AlTypes(ctx.vars) \cup AlTypes(ctx.svars)) IN
                         \A v \in STVs(TypesIn(r)) : v \in given /\ (v[2] \in IvNames => v \in STVs(TypesIn(s)))

\* names of the clauses of GoodResult that FAIL for r
GoodClauses(s, ctx, sig, r) ==
  IF ~WellFormed(r, 0) THEN {"SameShape"}
  ELSE IF HasNone(r) THEN {"Determined"} \cup (IF SameShape(s, r) THEN {} ELSE {"SameShape"})
  ELSE (IF WellTyped(r) THEN {} ELSE {"WellTyped"})
       \cup (IF SameShape(s, r)
             THEN (IF Keeps(s, r) THEN {} ELSE {"KeepAnnot"}) \cup (IF DeclKept(s, r, ctx) THEN {} ELSE {"KeepDecl"})
             ELSE {"SameShape"})
       \cup (IF OneType(r) THEN {} ELSE {"OneType"})
       \cup (IF ConstInst(r, sig) THEN {} ELSE {"ConstInst"})
       \cup (IF NoLeftover(s, r, ctx) THEN {} ELSE {"NoInternal"})
GoodResult(s, ctx, sig, r) == GoodClauses(s, ctx, sig, r) = {}

\* ---- erasure ----
RECURSIVE Erase(_,_,_,_)
\* drop the types of variables (unless kv), constants (unless kc), binders (unless kb)
Erase(t, kv, kc, kb) ==
  CASE t[1] \in {"var","svar"} -> IF kv THEN t ELSE <<t[1], t[2], NoneT>>
    [] t[1] = "const" -> IF kc THEN t ELSE <<"const", t[2], NoneT>>
    [] t[1] = "comb" -> <<"comb", Erase(t[2], kv, kc, kb), Erase(t[3], kv, kc, kb)>>
    [] t[1] = "abs" -> <<"abs", IF kb THEN t[2] ELSE NoneT, Erase(t[3], kv, kc, kb)>>
    [] OTHER -> t
KeepPatterns == {"none", "vars", "cb", "all"}
EraseP(t, keep) == CASE keep = "none" -> Erase(t, FALSE, FALSE, FALSE)
                     [] keep = "vars" -> Erase(t, TRUE, FALSE, FALSE)
                     [] keep = "cb" -> Erase(t, FALSE, TRUE, TRUE)
                     [] OTHER -> t
\* s is an erasure of o: same shape and every type still present is the original one
IsErasureOf(s, o) == WellFormed(o, 0) /\ ~HasNone(o) /\ SameShape(s, o) /\ Keeps(s, o)
\* constants and binders all still carry their types
RECURSIVE CBKept(_)
CBKept(s) == CASE s[1] = "const" -> s[3] # NoneT
               [] s[1] = "comb" -> CBKept(s[2]) /\ CBKept(s[3])
               [] s[1] = "abs" -> s[2] # NoneT /\ CBKept(s[3])
               [] OTHER -> TRUE
\* all free (schematic) variables of o are declared in ctx at their type
AllDeclared(o, ctx) == \A v \in VarOccs(o) :
     IF v[1] = "var" THEN v[2] \in Keys(ctx.vars) /\ Lookup(ctx.vars, v[2]) = v[3]
     ELSE v[2] \in Keys(ctx.svars) /\ Lookup(ctx.svars, v[2]) = v[3]
\* The erasure clause applies: o is a well-typed good result of its own erasure s and its variables are declared
ErasureApplies(s, ctx, sig, o) == IsErasureOf(s, o) /\ AllDeclared(o, ctx) /\ GoodResult(s, ctx, sig, o)
\* ... and then the only outcomes allowed are: the original, or (unless constants and binders were kept) the
\* report that the types are under-determined.   kind/err as in C08_InferAlgo!Outcome
ErasureClauses(s, kind, err, r, o) ==
  IF kind = "term" THEN (IF r = o THEN {} ELSE {"ErasureRecovers"})
  ELSE IF kind = "own" THEN (IF err = "unspecified" /\ ~CBKept(s) THEN {} ELSE {"ErasureRecovers"})
  ELSE {}
=============================================================================
