---------------------------- MODULE C05_SurdLaws ----------------------------
(* Verification of spec/C05_Surd.tla by TLC.  One state per pair (a, b) of surds  q + ssqrt s  with q and s on a  *)
(* small rational grid (both signs, zero, perfect squares of rationals and non-squares), plus a few states with  *)
(* multi-limb numbers.                                                                                          *)
(*  Numeric   SCmp agrees with an INDEPENDENT numerical enclosure: each value is enclosed, with TLC's native    *)
(*            integers, in an interval of width <= 1/1000 obtained from the integer square root (bisection,      *)
(*            lib/Rat.tla) of |s| scaled by 10^6; the enclosure is a point when |s| is the square of a rational,  *)
(*            so there the exact value decides.  Disjoint enclosures force the answer, and no answer may          *)
(*            contradict the enclosures.  The same for the results of SMulQ, SAddQ, SNeg, SAbs, SInv.             *)
(*  Order     SCmp is antisymmetric, reflexive, independent of the representation of the rationals, invariant     *)
(*            under adding a rational and under multiplying by a positive one, reversed by a negative one.       *)
(*  Squares   the laws the comparison is built from: equal rational parts -> compare the radicands;              *)
(*            0 <= p, 0 <= s:  p < sqrt s  iff  p^2 < s.                                                         *)
(*  BigCases  (mode "big") n = 10^8, 10^20, 10^40, 10^60: sqrt (n+1) > sqrt n, sqrt (n^2+1) > n > sqrt (n^2-1),  *)
(*            sqrt (n^2) = n, 1 + sqrt (n^2) = sqrt ((n+1)^2), 1 + sqrt (n^2+1) > sqrt ((n+1)^2+1) > 1 + sqrt (n^2) *)
EXTENDS C05_Surd, Rat, TLC

CONSTANT Wide          \* TRUE: the wider grid (thorough tier)

Gq == {<<-2, 1>>, <<-1, 2>>, <<0, 1>>, <<1, 3>>, <<3, 2>>} \cup (IF Wide THEN {<<-1, 1>>, <<1, 1>>, <<2, 1>>} ELSE {})
Gs == {<<-4, 1>>, <<-3, 1>>, <<-1, 4>>, <<0, 1>>, <<1, 4>>, <<1, 2>>, <<2, 1>>, <<9, 4>>, <<3, 1>>}
      \cup (IF Wide THEN {<<-2, 1>>, <<1, 1>>, <<4, 1>>, <<5, 1>>, <<-9, 4>>} ELSE {})
Grid == Gq \X Gs                                       \* << q, s >> with native normalised rationals
Exps == {2, 5, 10, 15}                                 \* n = 10^(4k): 1 followed by k zero limbs

VARIABLES a, b, mode
vars == <<a, b, mode>>
Init == \/ mode = "grid" /\ a \in Grid /\ b \in Grid
        \/ mode = "big" /\ a \in Exps /\ b = 0
Next == UNCHANGED vars
Spec == Init /\ [][Next]_vars

\* ---------------------------------------------------------------- from native rationals to BigInt rationals
QOf(x, k) == <<BFromInt(x[1] * k), BFromInt(x[2] * k)>>          \* the representation scaled by k > 0
SOf(x, k) == <<QOf(x[1], k), QOf(x[2], k)>>

\* ---------------------------------------------------------------- the numerical enclosure (native integers)
K == 1000
\* << lo, hi, den >>: lo / den <= q + ssqrt s <= hi / den, with lo = hi when |s| is the square of a rational
Encl(x) ==
  LET qp == x[1][1]  qd == x[1][2]  sp == x[2][1]  sd == x[2][2]
      m == RAbs(sp) * sd * K * K
      r == RISqrt(m)
      r2 == IF r * r = m THEN r ELSE r + 1
      c == qp * sd * K IN
  IF sp >= 0 THEN <<c + r * qd, c + r2 * qd, qd * sd * K>> ELSE <<c - r2 * qd, c - r * qd, qd * sd * K>>
\* hi(x) < lo(y)
Below(x, y) == x[2] * y[3] < y[1] * x[3]
Consistent(c, x, y) == /\ c \in {-1, 0, 1}
                       /\ (Below(x, y) => c = -1) /\ (Below(y, x) => c = 1)
                       /\ (c = -1 => x[1] * y[3] < y[2] * x[3])
                       /\ (c = 1 => y[1] * x[3] < x[2] * y[3])
                       /\ (c = 0 => ~Below(x, y) /\ ~Below(y, x))
Sgn(n) == IF n < 0 THEN -1 ELSE IF n = 0 THEN 0 ELSE 1
RSSq(k) == RMul(k, RAbsQ(k))
NMul(x, k) == <<RMul(x[1], k), RMul(x[2], RSSq(k))>>
NAdd(x, p) == <<RAdd(x[1], p), x[2]>>
NNeg(x) == <<RNeg(x[1]), RNeg(x[2])>>
Muls == {<<-2, 1>>, <<3, 1>>}
Adds == {<<-1, 1>>, <<1, 2>>}
Scales == {<<-2, 1>>, <<-1, 2>>, <<1, 3>>, <<3, 1>>}

Numeric == mode = "grid" =>
  LET A == SOf(a, 1)  B == SOf(b, 1)  eb == Encl(b) IN
  /\ Consistent(SCmp(A, B), Encl(a), eb)
  /\ \A k \in Muls : Consistent(SCmp(SMulQ(A, QOf(k, 1)), B), Encl(NMul(a, k)), eb)
  /\ \A p \in Adds : Consistent(SCmp(SAddQ(A, QOf(p, 1)), B), Encl(NAdd(a, p)), eb)
  /\ Consistent(SCmp(SNeg(A), B), Encl(NNeg(a)), eb)
  /\ Consistent(SCmp(SAbs(A), B), Encl(IF SCmp(A, SRat(QZero)) < 0 THEN NNeg(a) ELSE a), eb)
  /\ Consistent(SSgn(A), Encl(a), Encl(<<<<0, 1>>, <<0, 1>>>>))
  /\ (a[1][1] = 0 => SHasInv(A) /\ Consistent(SCmp(SInv(A), B), Encl(<<<<0, 1>>, RInv(a[2])>>), eb))
Order == mode = "grid" =>
  LET A == SOf(a, 1)  B == SOf(b, 1)  c == SCmp(A, B) IN
  /\ c = -SCmp(B, A) /\ SCmp(A, A) = 0 /\ SCmp(A, SOf(a, 3)) = 0
  /\ c = SCmp(SOf(a, 3), B) /\ c = SCmp(A, <<QOf(b[1], 7), QOf(b[2], 2)>>)                   \* unnormalised representations
  /\ \A p \in Adds : SCmp(SAddQ(A, QOf(p, 1)), SAddQ(B, QOf(p, 2))) = c
  /\ \A k \in Scales : SCmp(SMulQ(A, QOf(k, 1)), SMulQ(B, QOf(k, 1))) = Sgn(k[1]) * c
  /\ SCmp(SNeg(A), SNeg(B)) = -c
  /\ SSgn(SAbs(A)) >= 0 /\ (SCmp(SAbs(A), A) = 0 \/ SCmp(SAbs(A), SNeg(A)) = 0)
  /\ (SIsRat(A) <=> a[2][1] = 0)
Squares == mode = "grid" =>
  LET A == SOf(a, 1)  B == SOf(b, 1)  c == SCmp(A, B) IN
  /\ (a[1] = b[1] => c = RCmp(a[2], b[2]))                                                   \* monotone: compare the radicands
  /\ (a[2][1] = 0 /\ b[1][1] = 0 /\ a[1][1] >= 0 /\ b[2][1] >= 0 => c = RCmp(RMul(a[1], a[1]), b[2]))   \* p ? sqrt s  iff  p^2 ? s
  /\ (a[2][1] = 0 /\ b[2][1] = 0 => c = RCmp(a[1], b[1]))                                    \* rationals

\* ---------------------------------------------------------------- multi-limb cases
Ten(k) == <<1, [i \in 1..(k + 1) |-> IF i = k + 1 THEN 1 ELSE 0]>>        \* 10^(4k)
BigCases == mode = "big" =>
  LET n == Ten(a)  n2 == BMul(n, n)  n1 == BAdd(n, BOne)  n12 == BMul(n1, n1)
      R(x) == SRoot(QInt(x))  I(x) == SRat(QInt(x))  P(x) == SAddQ(R(x), QInt(BOne)) IN       \* sqrt x,  x,  1 + sqrt x
  /\ BOk(n) /\ BOk(n2)
  /\ SCmp(R(n1), R(n)) = 1 /\ SCmp(R(n), R(n1)) = -1 /\ SCmp(R(n), R(n)) = 0
  /\ SCmp(R(BAdd(n2, BOne)), I(n)) = 1 /\ SCmp(I(n), R(BAdd(n2, BOne))) = -1
  /\ SCmp(R(BSub(n2, BOne)), I(n)) = -1 /\ SCmp(R(n2), I(n)) = 0 /\ SCmp(I(n), R(n2)) = 0
  /\ SCmp(R(BNeg(n2)), I(BNeg(n))) = 0 /\ SCmp(R(BNeg(BAdd(n2, BOne))), I(BNeg(n))) = -1      \* sqrt (-x) = - sqrt x
  /\ SCmp(P(n2), R(n12)) = 0 /\ SCmp(R(n12), P(n2)) = 0
  /\ SCmp(P(BAdd(n2, BOne)), R(BAdd(n12, BOne))) = 1 /\ SCmp(R(BAdd(n12, BOne)), P(n2)) = 1
  /\ SCmp(SMulQ(R(n), QInt(BFromInt(2))), R(BAdd(BMul(BFromInt(4), n), BOne))) = -1           \* 2 sqrt n < sqrt (4n + 1)
  /\ SCmp(SMulQ(SAddQ(R(BAdd(n2, BOne)), QInt(BNeg(n))), QInt(BMul(BFromInt(4), n))), I(BOne)) = 1     \* (sqrt (n^2+1) - n) * 4n > 1
  /\ SCmp(SMulQ(SAddQ(R(BAdd(n2, BOne)), QInt(BNeg(n))), QInt(BMul(BFromInt(2), n))), I(BOne)) = -1    \* (sqrt (n^2+1) - n) * 2n < 1
=============================================================================
