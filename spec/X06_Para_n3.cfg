SPECIFICATION Spec
CONSTANTS
  NProc = 3
  NGuards = 0
  NAsgs = 0
  NInvs = 0
  TwoArr = FALSE
  Record = FALSE
  MaxSteps = 0
  WpMulti = 1
  RunSet = 1
  DoEmit = FALSE
  DoWp = TRUE
  DoRun = TRUE
INVARIANT WpExact
INVARIANT Consistent
INVARIANT Classified
CHECK_DEADLOCK FALSE
