#!/bin/sh
# second regression for fix: commits: totals of the library replay (expected at the pinned commit:
#   Total | 1974 | 78 | 95 | 1587 | 29 | 0 | 278 | 0 | 0)
cd /repo && /venv/bin/python -m server.monitor 2>&1 | grep -E "^ *Total"
