#!/venv/bin/python
"""Regenerates /verif/MANIFEST.json from the table below (keeps it schema-valid at all times)."""
import json
import os
import subprocess
import sys

VERIF = os.path.dirname(os.path.dirname(os.path.abspath(__file__)))

# id -> (category, text, note, technique, design_ref)
CHECKS = {
 "C01": ("model_checking",
         "TLC model-checks spec/C01_Kernel.tla (the 15 primitive rules as a saturation machine over typed and adversarial "
         "argument pools; invariants: every derived sequent well-typed, valid in all finite standard models with |tyvar|<=2, "
         "never |- !A. A). Every attempt TLC enumerated is replayed into kernel/thm.py and theory.check_proof, a seeded "
         "code-driven walk composes the code's own results into gap-free proofs, and TLC evaluates the same invariants on "
         "every event (trace spec C01_KernelTrace). Bounded-exhaustive in the pools, sampled beyond.",
         "Trusted: TLC/SANY, the reference rules in spec/lib/Kernel.tla and semantics in spec/lib/HolSem.tla, the structural "
         "codec (harness/codec.py), CPython. Validity is checked in finite standard models only (sound for refutation).",
         "TLA+ spec of the kernel as a transition system + TLC model checking + trace validation of the real kernel against it",
         "6/C01"),
 "C03": ("model_checking",
         "TLC model-checks (a) spec/C03_TermAlgebra.tla: one state per operation vector over all well-typed terms of bounded depth; "
         "invariant: the semantic laws of C03_Laws (denotation preserved in every finite standard model, type preserved, beta-normal, "
         "variable really abstracted) hold for the reference algebra; (b) spec/C03_Heap.tla: identity tokens under copy-construction, "
         "garbage collection and address reuse as coded, invariants EqCorrect/TokenOwn. Every vector is performed on real terms "
         "(fresh and shared sub-objects) and TLC evaluates the same laws on the code's results; ==, hash and fast_compare are judged "
         "against structural identity of the nameless encoding on rebuilt/renamed/copied/mutated pairs and triples; recorded heap "
         "histories with directed address reuse are validated action by action.",
         "Trusted: TLC/SANY, HolSem finite-model semantics (|tyvar|<=2), structural codec, CPython. Address reuse is only *realised* by the "
         "allocator; a history where it is not realised is not counted.",
         "TLA+ semantic laws + heap/token state machine, TLC model checking, vector replay and trace validation against kernel/term.py",
         "6/C03"),
 "C12": ("model_checking",
         "TLC model-checks the loader of logic/basic.py written in PlusCal (spec/C12_Loader.tla: global theory, cache, timestamps, "
         "sys.modules, module-import side effects, injected parse failures), exhaustively over all histories of <= 3 operations on a "
         "4-theory chain and of 2 operations on the REAL import graph with constants generated from the repository (library imports, "
         "lazy-import table, traced module bodies); invariant: every load returns exactly Expected. Histories (counterexamples of the "
         "as-coded variants, samples, limits, injected failures, file edits on a scratch library, a cyclic library) are executed in "
         "fresh subprocesses of the real code and every load event is judged by TLC (spec/C12_LoaderTrace.tla): success, error on "
         "missing limit / cycle, installed names = transitive imports + own items before the limit, full projection = canonical fresh process.",
         "Trusted: TLC/SANY/pcal, the projection of theory.thy (harness/drivers/c12.py), per-item extension names taken from the canonical "
         "process. Histories are sampled (quick ~20, thorough ~150); the model-level exploration is exhaustive for its bounds.",
         "PlusCal/TLA+ model of the loader + TLC; model histories replayed in fresh processes; trace validation of projected theory states",
         "6/C12"),
 "C09": ("model_checking",
        "TLC model-checks spec/C09_Matcher.tla: a machine over the input space of first_order_match (every well-typed pattern with "
        "schematic variables of bounded depth plus ~30 deeper Miller / repeated / polymorphic / non-pattern shapes, every small "
        "instantiation as positive target in normalised, raw, eta-contracted and eta-expanded form, every one-atom perturbation and "
        "unrelated terms as negatives, given instantiations empty / partial / full / foreign / inconsistent); invariants: the generating "
        "instantiation Matches (reference Subst + beta-eta normal forms), first-order positives are found by the brute-force oracle from "
        "every consistent seed and by no inconsistent one, witnesses are unique, and the cheap candidate universe loses no witness. Every "
        "vector is replayed through logic/matcher.py (clashing and distinct binder names, first_order_match and first_order_match_list), "
        "plus seeded random inputs with library theorems as patterns; TLC judges every call (spec/C09_MatcherTrace.tla): success => "
        "pattern instantiated by the returned types+terms equals the target up to beta-eta, the result extends the given instantiation, "
        "the caller's object is unchanged; first-order literal instance exists => the call succeeds.",
        "Trusted: TLC/SANY, reference term algebra spec/lib/HolTerms.tla + HolGen.tla (checked against finite-model semantics by C03), "
        "structural codec, CPython. Completeness is judged only for first-order beta-normal patterns and literal instances; incompleteness "
        "of higher-order matching is logged as divergence. Targets contain no schematic variables.",
        "TLA+ contract of matching + input-space machine, TLC model checking, vector replay and trace validation against logic/matcher.py",
        "6/C09"),
 "C13": ("model_checking",
        "TLC model-checks spec/C13_Editor.tla (identifier arithmetic of kernel/proof.py and the line edits of ProofState with ghost item "
        "identities: all sequences of <= 3/4 add/remove/cite actions; invariants Contiguous, CitationsTrackItems, NoDanglingUnlessRemoved). "
        "The real editor is driven over seeded library theorems: every recorded step (live or on a copy), seeded perturbations (other "
        "suggested methods, goals and facts, cut, cases, new_var, introduction, revert_intro, two deep) and ProofCache.insert_step; after "
        "EVERY completed operation the projected state, a full re-check, a gap-free re-check when no gap is left, the export -> parse_proof "
        "round trip and the original-under-copy projection are judged by TLC (spec/C13_EditorTrace.tla) on ten clauses.",
        "Trusted: TLC/SANY, the projection (sequents interned through the structural codec), CPython. z3 steps are not re-run (as the "
        "repository's monitor). Operations that raise are not judged. Theorems are sampled by seed (quick: 3 theories x 8; thorough: 10 x 60).",
        "TLA+ spec of proof-line renumbering + TLC; trace validation of real editing sessions, state by state",
        "6/C13"),
 "C14": ("model_checking",
        "TLC model-checks the search/apply contract on an abstract proof state (spec/C14_Suggest.tla: all states and suggestions over 4 "
        "propositions; invariants GoalsAdvertised, SolvesLeavesNone, ClosedOnesAreProved, FactAppears). At every prefix state of seeded "
        "library proofs the real search_method is run on the recorded goal/facts and on seeded other selections, and every returned "
        "suggestion (<= 10 per query) is applied on a copy; TLC judges each application (spec/C14_SuggestTrace.tla): never fails "
        "outright, new gaps are among the advertised goals, a suggestion advertised as solving leaves none, advertised goals not left "
        "open are proved lines, advertised facts appear as proved lines, the original state is untouched.",
        "Trusted: TLC/SANY, projection of proof states (terms interned through the structural codec). Suggestions with declared "
        "parameters left open are applied only when the recorded step is the same suggestion (its values are used); others are not judged. "
        "z3 is switched off as in the repository's monitor.",
        "TLA+ contract spec + TLC; trace validation of real search/apply pairs at reachable proof states",
        "6/C14"),
 "C07": ("model_checking",
        "TLC model-checks spec/C07_Syntax.tla: the printer's bracket rules over the operator table against a recursive-descent model of "
        "the parser's grammar ladder, both tables generated from syntax/operator.py and the grammar text of syntax/parser.py, on every "
        "depth-2 nesting of operators/application; invariant RoundTrip on the nestings that have a well-typed instance (computed with the "
        "real type checker). The real printer and parser are run on one well-typed instance of every typable nesting under four printer "
        "configurations (ascii/unicode, line widths), seeded further instances and depth-3 nestings, ~60 special forms (binders, "
        "comprehension, numerals at every numeric type, if, function update, literals, polymorphic constants needing annotations, bound "
        "names clashing with free names), and a seeded sample of library statements, sequents, constant types and stored proof items; "
        "TLC judges each round trip by structural equality (spec/C07_SyntaxTrace.tla), and repeated prints along a history must agree.",
        "Trusted: TLC/SANY, the structural codec, the regular-expression extraction of the grammar ladder. The decisive oracle for the real "
        "code is the identity itself; the TLA+ model contributes the exhaustive nesting space and the table/grammar consistency check. "
        "Minimal type annotation and the lexer are bound only by running the round trip.",
        "TLA+ model of printer table vs grammar ladder (generated from code) + TLC; trace validation of real print/parse round trips",
        "6/C07"),
 "C04": ("model_checking",
        "TLC model-checks spec/C04_Macro.tla (the checker's trusted-evaluation and checked-expansion treatments of a macro step over all "
        "combinations of reported / established sequents and trust levels; under the contract MacroSound they agree). Macro invocations "
        "harvested from the final proofs of seeded library theorems and recursively from their expansions, mutated invocations and seeded "
        "fresh propositional instances are each evaluated, expanded, and checked by the real checker at the default trust level; TLC judges "
        "every invocation whose expansion is produced (spec/C04_MacroTrace.tla): the checker accepts it, with the conclusion that eval "
        "reports and no additional hypotheses.",
        "Trusted: TLC/SANY, interning of sequents through the structural codec. Invocations are those reachable from recorded proofs plus "
        "mutations (quick ~700, thorough ~10^4); macros never invoked there are not covered. z3 steps are not re-run. veriT macros: see C18.",
        "TLA+ spec of trusted vs expanded macro checking + TLC; trace validation of harvested real macro invocations (eval vs checked expansion)",
        "6/C04"),
 "C02": ("model_checking",
        "TLC explores the space of proof objects of spec/C02_Checker.tla (construction actions; identifiers position+offset, citations "
        "existing/forward/self/negative/dangling/into-closed-block, stated sequent absent/exact/weaker/stronger/other, placeholders, gap "
        "macro, empty lines, blocks) checking that the resolution-agnostic reference RefCheck is sound and counts gaps exactly; the checker "
        "AS CODED (C02_CheckerImpl: can_depend_on on identifiers, find_item on positions with Python indexing, in-place th, compute_only, "
        "checked_extend; variant constants derived from the code by behavioural probes) is model-checked against RefCheck on the same "
        "space; every object plus seeded larger damaged derivations is built as real Proof objects, run through theory.check_proof / "
        "checked_extend, and TLC judges each event (C02_CheckerTrace: AcceptedJustified, FinalJustified, NoGapsHonoured, GapsReported, "
        "ExtensionProved).",
        "Trusted: TLC/SANY, CommunityModules Json, the projection in harness/drivers/c02.py, CPython. Small sequent language (implications "
        "over A, B, ?A; 7 rules + 2 test macros, check_level 0); rule `variable`, non-empty instantiations and shared items not examined; "
        "exhaustive within slice bounds (<=3 items / 1 block / anomaly budget), sampled beyond.",
        "TLA+ reference checker + as-coded algorithm model, TLC model checking, vector replay and trace validation against kernel/theory.py",
        "6/C02"),
 "C11": ("model_checking",
        "TLC offers every candidate definition (rhs depth<=2; self-referential, polymorphic/schematic right-hand sides, repeated / "
        "non-variable / constant arguments, new / overloaded / already declared names) to a theory machine (spec/C11_Items.tla) with "
        "invariants SyntacticOK => Conservative (finite standard models), AddedWellTyped, OnlyOKAdded; all candidates, seeded random larger "
        "ones, generated datatypes / recursive functions / inductive predicates and the items of the library files go through "
        "items.parse_item, get_extension, export_json and get_display/parse_edit; TLC judges the PARSED definitions on the literal "
        "conditions of the property (overlap decided by unification), every generated extension for well-typedness over the extended "
        "signature, and both round trips (spec/C11_ItemsTrace.tla).",
        "Trusted: TLC/SANY, HolSem finite models for the semantic companion clause (an accepted, SyntacticOK but non-conservative definition "
        "would be a machinery error, never a violation), structural projection of items. Semantic validity of generated induction/cases "
        "theorems is not examined (the property asks for well-typedness). Library files: quick 7 seeded, thorough all 43.",
        "TLA+ theory-extension machine + finite-model conservativity + TLC; vector replay and trace validation against server/items.py",
        "6/C11"),
 "C16": ("model_checking",
        "TLC model-checks spec/C16_LinArith.tla (+C16_LinCore.tla): every multiset of <=2 (and a class of 3) two-variable factoids "
        "0<=a*x1+b*x2+c is a state; a reference elimination (Fourier-Motzkin, real shadow + GCD tightening, dark shadow) runs over it in "
        "every variable order; invariants RealSound, ContrSound, DarkSound, ExactComplete, FMExact (rational-grid completeness) and "
        "BoxStable are judged by brute force over integer boxes / the grid k/d. Every system of the class is replayed into "
        "omega.solve_matrix (both row orders) and Simplex (two input shapes), samples into OmegaHOL, SimplexMacro, branch_and_bound, "
        "IntegerSimplexMacro and simplex_strict, plus seeded random systems <=5 vars/8 rows/coeff -5..5; produced proofs go through "
        "theory.check_proof. TLC (C16_LinArithTrace) judges every event: SAT => the returned (rational) assignment satisfies every row "
        "and is integral for integer procedures; UNSAT => no point of the box/grid satisfies the system; proof => accepted, concludes "
        "false, hypotheses among the given constraints and themselves unsatisfiable on the box.",
        "Trusted: TLC/SANY, exact integer arithmetic of C16_LinCore, CPython, kernel term accessors used to project hypotheses to linear "
        "forms. UNSAT verdicts are refuted only by an explicit point of a box/grid (never a false alarm; a wrong UNSAT whose solutions all "
        "lie outside the boxes is missed); no-conclusion/exception/time-out = divergence; strict-simplex SAT assignments and witnesses "
        ">10^6 are not examined.",
        "TLA+ reference elimination as a transition system + TLC; TLC-generated vector replay and trace validation of omega / simplex",
        "6/C16"),
 "C20": ("model_checking",
        "TLC explores annotated while-programs (nesting<=3, thorough 4; integer and natural pools with nested subtraction, products of "
        "sums, negated conjunctions, nested implications) as a small-step machine (spec/C20_Hoare.tla) and checks the reference VC "
        "generator sound against execution (Sound / ExecAgrees / AllGuarded); every triple is replayed through imperative/com.py "
        "(compute_wp, get_lines, get_vcs, parser2 re-parse, HOL form, compute_wp twice) and sampled natural-number triples and "
        "(program, store) pairs through imp.vcg_norm / eval_Sem + check_proof; TLC judges every event (C20_HoareTrace): VcSound (with the "
        "CODE's conditions), PrintParse, ParseFail, HolMeaning, EvalSemChecked, EvalSemFinal, VcgChecked, VcgSound.",
        "Trusted: TLC/SANY, the structural codec for imperative/expr.py objects, CPython. Exact on the box: every precondition / invariant "
        "carries the box conjunct and each code condition is checked guarded, so 'all VCs hold' is decided, not sampled. Not examined: "
        "operators outside parser2's grammar, truncated natural subtraction, runs needing > 10 loop iterations or values beyond +-30.",
        "TLA+ operational semantics + reference VC generator, TLC model checking; vector replay and trace validation of imperative/*",
        "6/C20"),
 "C19": ("model_checking",
        "TLC explores the integration calculator's calculation machine (start expression + up to 3 rule steps) over all polynomial integrands "
        "of degree <= 3 in several syntactic shapes, bounds in both orders, derivatives and finite sums, with reference rules on coefficient "
        "sequences over exact rationals (spec/C19_Calc.tla; invariants SameValueInv, TwoEvaluators, SimplifyIdempotent); every transition, seeded "
        "random calculations with parameters / conditions / nested binders, ~60 directed side-condition cases and all 1308 recorded example steps "
        "are executed by the real Rule.eval / normalize / printer / parser and judged in TLA+ (C19_CalcTrace over C19_Eval: exact rational value at "
        "grid points incl. forward-mode derivatives and interpolated polynomial integrals; NormalizeIdempotent, NormalizePreservesValue; "
        "PrintParseIdentity on all expression forms).",
        "RESTRICTED CLAIM: value preservation is judged only on the exactly evaluable fragment (rational constants, + - * /, integer powers, abs, "
        "polynomial integrands, first-order derivatives, finite sums, EvalAt); nothing transcendental, no improper integrals, limits or series; "
        "interval bounds (interval.py) are not examined; rules that depend on lemmas / definitions / induction hypotheses are not examined. "
        "Open finding (known_findings.txt): poly.normalize is not idempotent (two class keys by call site). Trusted: TLC/SANY, lib/Rat.tla, the "
        "structural codec for integral/expr.py objects.",
        "TLA+/TLC state machine + vectors replayed into the code + trace validation of code events; 5 spec mutants, 14-event binding self-test",
        "6/C19, 7"),
 "C08": ("model_checking",
        "TLC model-checks (I) spec/C08_InferImpl.tla: the union-find/reach machine of syntax/infertype.py as coded over all unify "
        "sequences on {bool, fun, list} with invariants AcyclicOrRejected, SubstTerminates, UnifierOK, and (S) spec/C08_Infer.tla: the "
        "input space (TLC-enumerated well-typed terms over a 20-constant signature with overloaded arithmetic, polymorphic constants, "
        "higher-order and schematic variables, nested binders x erasure patterns; all constraint conjunctions over 4 variables = "
        "occurs-check cycles of length 1-4 in every unification order, clashing uses of a variable) with the algorithm model checked "
        "against the GoodResult contract. Every generated case, seeded random deeper terms, long random conjunctions and the erased "
        "theorem statements of theory real are run through the real type_infer; TLC judges each outcome (spec/C08_InferTrace.tla: "
        "Determined, WellTyped, SameShape, KeepAnnot, KeepDecl, OneType, ConstInst, NoInternal, ErasureRecovers, OwnError, Terminates) "
        "and compares it with the model's prediction (divergence).",
        "Trusted: TLC/SANY, structural codec, CPython. The model parameters ExactOccursCheck / AnnotVarCheck are set by a behavioural probe "
        "of the real code. forbid_internal=False / infer_printed_type, constants annotated at non-instances and unknown constants are not "
        "examined. A foreign exception or time-out is a violation only with the model-level explanation (rule 5).",
        "TLA+ as-coded inference machine + contract, TLC model checking; vector replay and trace validation against syntax/infertype.py",
        "6/C08"),
 "C15": ("model_checking",
        "TLC model-checks (S) spec/C15_Sat.tla: every CNF of small universes (clauses as literal sequences with duplicated/complementary "
        "literals, empty clause, empty CNF; all clause sets over 3 variables) as an initial state of a reference refutation procedure; "
        "invariants: resolution sound, refutation complete, the certificate format of solve_cnf accepted exactly for unsatisfiable CNFs; "
        "(I) spec/C15_SatImpl.tla: prover/sat.py::solve_cnf as coded (propagation counting list entries, decisions, conflict analysis with "
        "the code's resolution, back-jump level) from every such CNF; invariants VerdictCorrect, CertificateValid, Progress/Terminates, "
        "trail and reason invariants; the constant Dedup is probed from the code. Every CNF is replayed through sat.solve_cnf (plus seeded "
        "random CNFs up to 12 variables / 60 clauses) and TLC judges every result (spec/C15_SatTrace.tla): assignment satisfies every clause, "
        "resolution trace replays step by step to the empty clause, verdict equals exhaustive search, time-outs explained by a loop of the "
        "model; the code's (verdict, certificate) must also be a reachable result of the I model. spec/C15_Tseitin.tla checks a reference "
        "Tseitin encoding on all formulas up to the bound; tseitin.encode / check_proof / convert_cnf / proofrec.solve_cnf are judged by "
        "truth tables in spec/C15_TseitinTrace.tla (checker-accepted, valid, CNF of the theorem, equisatisfiable).",
        "Trusted: TLC/SANY + CommunityModules, CPython, the structural projection of terms to propositional structure in the driver. "
        "Exhaustive within the small universes (quick 15 541 CNFs, thorough 332 128), sampled beyond; truth tables up to 12 atoms; a time-out "
        "is a violation only with a model-level or observed-cycle explanation; sat/zchaff.py needs an external Windows binary and is not run.",
        "TLA+ reference (S) and as-coded (I) specifications of the SAT solver + TLC; vector replay and trace validation of sat / tseitin / proofrec",
        "6/C15"),
 "C17": ("model_checking",
        "TLC model-checks spec/C17_CongC.tla (closure of a set of equations a=b / f(a,b)=c as a least fixpoint: a congruence, the least one "
        "= what holds in every compatible quotient, Explains sound/complete) and spec/C17_CongCImpl.tla (Nieuwenhuis-Oliveras as coded in "
        "prover/congc.py: rep, class lists, use lists, lookup, proof forest with path reversal, pending; actions Merge/PropagateOne/Test/"
        "Explain) on ALL merge sequences of <=3 merges over 3 constants (quick; 4 constants, queries between merges and simulated 7-merge "
        "sequences in thorough); invariants TestCorrect, ExplainCorrect, QueryCorrect and the structural ones. Every sequence TLC explored "
        "is replayed on the real CongClosure (record projected, test on all pairs, explain on all equal pairs) and, sampled, on "
        "CongClosureHOL (theorem exported and run through theory.check_proof), with seeded random long sequences / curried-term scenarios "
        "(<=8 constants, depth 3) and UnionFind union sequences; TLC evaluates on every event test <=> Closure(merged), Explains(used "
        "equations), theorem states s=t, checker-accepted, hypotheses among the merged equations (C17_CongCTrace) and compares the record "
        "with the I specification's run.",
        "Trusted: TLC/SANY + CommunityModules, the structural naming of HOL subterms to the {constant, f} vocabulary in the driver, the fast "
        "closure formulation beyond 4 constants (checked equal only on the small scope), CPython. E-matching, abstractions/open terms and "
        "explain on unequal pairs are not examined.",
        "TLA+ S/I specifications + TLC (symmetry-reduced, plus simulation); TLC behaviours replayed into the code; trace validation of record and answers",
        "6/C17"),
 "C18": ("model_checking",
        "TLC model-checks spec/C18_Alethe.tla: a machine over the space of candidate veriT/Alethe proof steps - for 73 rules the intended "
        "instances of reference schemas (spec/C18_Rules.tla) over small formula pools and every one-point near miss (literal dropped/added/"
        "swapped/replaced by a sibling formula; premise dropped/added; a connective, negation, atom, comparison, arithmetic operator or "
        "numeral changed; Farkas coefficient, clause size or instantiation perturbed; hypotheses attached); invariants: every intended step "
        "is a consequence of its premises in all finite models (|'a|<=2, HolSem + xor/IF) or at all grid points with exact rational "
        "arithmetic, closing it into a whole proof refutes its assumptions, explicit near misses are refuted. Every candidate is evaluated by "
        "the real macro.eval (smt/veriT/verit_macro.py, la_generic.py), closed into a whole proof run through "
        "ProofReconstruction.validate_step, and seeded random larger candidates are obtained by substituting random formulas for atoms; TLC "
        "judges every event (C18_AletheTrace): accepted => result sequent entailed by the premise sequents and hyps within the premises' "
        "hyps; accepted proof ending in the empty clause => assumed formulas jointly unsatisfiable.",
        "Trusted: TLC/SANY, structural codec, CPython. Consequence is refuted only by an explicit counter-interpretation (finite standard models "
        "with |'a|<=2, or integer/half-integer grid points in [-2,2], x/0=0 as in theory real); steps outside both vocabularies are not "
        "examined. Context rules (refl, bind, let, onepoint, sko_ex, sko_forall) are recorded but not judged; distinct_elim, bfun_elim, "
        "internal macros and the get_proof_term routes are not covered. The veriT binary and SMT-LIB proofs are absent: only generated steps.",
        "TLA+ rule schemas + finite-model/arithmetic-grid consequence semantics, TLC; near-miss vector replay and trace validation of smt/veriT",
        "6/C18"),
 "C05": ("model_checking",
        "TLC model-checks spec/C05_Arith.tla: one state per (goal, trusted step) over every goal l REL r / ~(l REL r) with l of depth <= 2 "
        "(+ casts of compound terms, + one level below a subtraction) at each of nat/int/real; the meaning of every statement is computed "
        "with exact rational arithmetic (spec/C05_HolArith.tla, lib/Rat.tla: truncated subtraction only at nat, x/0 = 0, DIV/MOD by 0, powers); "
        "invariants: the meaning is total and obeys the library's defining equations, each step's type-blind evaluator agrees with it on "
        "terms of its own type, a step behind its type discipline only asserts true statements. Every goal is handed as a one-step proof to "
        "EVERY level-0 arithmetic macro of the real checker (check_proof, default trust level), plus seeded deeper/mixed-type/near-equal/"
        "float-path/polynomial inputs; TLC judges every accepted sequent (trace spec C05_ArithTrace; identities refuted by a grid point).",
        "Trusted: TLC/SANY, the reading of library/{nat,int,real,transcendentals}.json in C05_HolArith.tla (int^nat as standard power), the "
        "structural projection in harness/drivers/c05.py, CPython. Not examined (TLA+ has no reals): irrational constants/functions, "
        "non-integer exponents, constants without a library meaning at their type, magnitudes >= 2^30; an identity that agrees on the grid "
        "is only 'not refuted'. Residual: const_inequality still certifies comparisons of irrational constants by floats (not judged).",
        "TLA+ semantics of HOL arithmetic with exact rationals + input-space machine, TLC; vector replay into check_proof, trace validation",
        "6/C05"),
 "C06": ("model_checking",
        "TLC model-checks spec/C06_Bridge.tla: a machine over the input space of the solver bridge (Negate / Quantify / Combine build every goal "
        "with <= 3 (quick) / 4 (thorough) connectives over two variables at nat, int and nat-through-of_nat, binders in positive and negative "
        "positions); invariants check the reference oracle of spec/C06_Sem.tla (HOL meaning with exact arithmetic, truncated nat minus, x/0=0; "
        "witness bound B vs 2B, monotone in the domain bound, the intended nat->int relativisation is faithful, anchors). Every goal is replayed "
        "through z3wrapper.solve / Z3Macro / the proof checker, plus deterministic families and seeded random goals, and polynomial / rational / "
        "interval goals through sympywrapper; TLC evaluates accepted => ~Refuted(goal | prems) on every event (C06_BridgeTrace).",
        "Refutation over finite sub-domains only (nat 0..2, int -2..2, 9 rational points, |'a|<=2); existentially-effective binders decided only "
        "for difference-logic bodies with the witness bound argued in C06_Sem.tla and checked by TLC on the universe; transcendental goals and "
        "functions over numbers are recorded but not judged (TLA+ has no reals). Trusted: TLC/SANY, lib/Rat.tla, the projection in the driver.",
        "TLA+ semantics + input-space machine model-checked by TLC; vectors replayed into the real bridge; trace validation of accepted goals",
        "6/C06"),
 "C10": ("model_checking",
        "TLC model-checks spec/C10_Rearr.tla, the rearrangement machine: state = an arithmetic expression over nat / the ring types or a "
        "conjunction / disjunction / negated formula; actions Comm, Assoc, Distrib, Factor, AddZero, MulOne, FoldNum, SucPlus, SubNeg, NegMul, "
        "PowFold, Dup/Dedup, DeMorgan, DNeg at every position; invariants: every action preserves the polynomial (canonical map monomial -> "
        "coefficient, truncated subtraction an opaque atom) resp. the member set and the truth table. The dump of the reachable states (orbits "
        "= classes) is replayed through nat.norm_full, int_norm_conv, real_norm_conv, auto_conv, proplogic norm_full/nnf/sort_conj/sort_disj, "
        "logic conj_norm/disj_norm; TLC-generated terms with binders (spec/C10_Terms.tla) through 53 traversal/rewriting combinator expressions "
        "incl. conditional rules; plus seeded random larger orbits. TLC (spec/C10_ConvTrace.tla) evaluates on every call the conversion contract "
        "(equation, lhs = input, hyps from conds), checker acceptance of the exported proof, eval = proof term, own-error-only, exact value "
        "preservation, idempotence, and canonicity on every orbit.",
        "Trusted: TLC/SANY, laws in spec/C10_Laws.tla, codec, the syntactic reader of TLC's state dump, CPython. Canonicity/idempotence demanded "
        "only of the nat, real and conj/disj normalisers (integers, nnf: divergence only); value differences involving opaque atoms are "
        "divergences; checker soundness is C01/C02.",
        "TLA+ rearrangement machine + TLC model checking; state dump as vectors; trace validation of the real conversions against the laws",
        "6/C10"),
}


# addenda after the seeded-change rounds (appended to the level text of each check)
ADDENDA = {
 "C03": " Sharing state machine spec/C03_Share.tla (heap of term nodes with shared sub-objects; Build, Hash, InplaceTyInst as coded / once / reference; invariants InstOnce, HashFresh, WellTypedInv) with histories replayed on real Term objects (C03_ShareTrace: InstOnce, TypePreserved, HashFresh, EqIsStructural); non-idempotent and swapping type instantiations.",
 "C01": " Focus pools cover schematic TYPE variables, incl. two schematic variables of one name at two schematic types. One extra round of the two instantiation rules alone (action SaturateInst) in the focus configuration: sequents whose derivation already took three rule applications are instantiated.",
 "C02": " The universe also varies the KIND of the args object on every primitive rule, citation counts, aliased item objects and equal twin items, and every check runs through non-global Theory objects (a side theory and a copy snapshot). HISTORY events: one Proof object checked first in a permissive context (global theory, gaps allowed), then - the same object - through the strict routes; judged by the same clauses.",
 "C04": " Also: all candidate steps of C18_Alethe through every veriT rule macro (every intended instance + stride-sampled near misses in quick, all in thorough), the C05 goal universe through the arithmetic macros, histories of `auto` invocations over the code's rule tables, histories of one theorem name whose statement changes, one premise at a time given a hypothesis of its own; clauses NoNewGaps and three clauses on the exported numbering.",
 "C05": " Magnitudes beyond 2^31 are judged with limb big integers (spec/lib/BigInt.tla, itself model-checked); compound natural exponents with truncated subtraction are in the universe. Exact comparison of surds q + sgn(s)*sqrt|s| over limb rationals (spec/C05_Surd.tla, laws model-checked in C05_SurdLaws): comparisons of irrational constants built from rationals and one square root per side are judged, incl. near-equal ones up to 10^120. Prelude histories: an approximate evaluation of a power before the exact evaluation of the same power in one process.",
 "C06": " C06_Sem gives function equality its extensional meaning, exact sqrt on squares, a sign abstraction for exp/log and a per-goal real grid; histories in one process (fail-then-succeed, open/closed intervals), binder-name clashes, a route where Z3 gives up at once.",
 "C07": " Also proof-step ARGUMENTS for every signature parse_args knows (C07_Args), all unicode/highlight/width settings, and print HISTORIES (C07_History; clause PrintStable); polymorphic leaves under operators and inside list/set literals. Systematic depth-3 family: right-open constructs (if, binders, lambda) as last operand of an operator application in non-final position.",
 "C08": " Histories over several theory objects, declared variables in the constraint family, schematic leaves (also sharing names with ordinary variables) in every family.",
 "C09": " Higher-order heads over mixtures of bound variables and (pre-)matched schematic variables, targets with maximally shared sub-term objects, ground self-matches (invariant SelfMatch).",
 "C10": " Binder-name clashes under every combinator, one theory object extended item by item (normalisers before/after the binary-arithmetic theorems), application atoms and units in propositional orbits.",
 "C11": " The S spec is a HISTORY machine of definitions (instances of overloaded constants must not overlap: invariant UniqueGround); non-uniform datatypes; statements of every type. Instance type T2E (disjoint from the others, same type constructors) and all triples of instance definitions in the quick tier.",
 "C12": " The PlusCal model includes the files themselves (create / remove / other imports / positional item edits) and six mechanism deviations; the driver performs the same operations on scratch copies of the library; clauses MissingFileIsError, position-aware ReturnsExpected; sibling-walk histories.",
 "C13": " Spec->code replay of all short line-edit behaviours (C13_LineEdit), generated sessions (sibling binders, nested existentials, cut/merge, introduction on a known antecedent, typed redexes, closed arithmetic), walks of depth 4 on copies.",
 "C14": " Clause StepChecks (the state left by a successful suggestion passes the full check); generated states and suggestion-driven walks with generated parameters; theory `function` always sampled.",
 "C15": " Families X op X (repeated operands) in every context; one representative per variable renaming in thorough. The atom NAME SPACE is a dimension of the formula universe (atoms named like the encoder's fresh variables x1, x2, ...); clause DefsFresh (definitional hypotheses: distinct fresh left sides, acyclic); reference with the same dimension and S-mutant reference_names_ignore_the_atoms.",
 "C16": " Ordered assertion histories (weak bound, pivot, tight bound on one linear form) besides multisets. Boxed integer systems cut by thin slabs (deep branch-and-bound trees with recurring splits), 3000 of them through branch_and_bound alone.",
 "C17": " Path-shaped merge sets over 6-7 constants, queries on terms never added after every prefix, swapped arguments, merges with proof terms (clause HolGapFree).",
 "C18": " Nested anchors, compound literals as pivots and list items, binder names in cong candidates; `let` and `onepoint` are judged (discharged variables read universally).",
 "C19": " Histories of rule applications sharing one parent-less Context (C19_Ctx), identities with several side conditions under every subset of established conditions, limits of rational functions at infinity as extended rationals.",
 "C20": " Programs that branch on a temporary the postcondition is silent about; re-annotation histories on one command object (ReAnnotate / ReInvariant).",
}

NOT_YET = {}


def main():
    props = [json.loads(l) for l in open(os.path.join(VERIF, "properties.jsonl"))]
    na_path = os.path.join(VERIF, "tools", "not_applicable.json")
    na = json.load(open(na_path)) if os.path.exists(na_path) else {}
    commits = []
    try:
        out = subprocess.run(["git", "-C", "/repo", "log", "--format=%h %s"], capture_output=True, text=True).stdout
        commits = [l.split()[0] for l in out.splitlines() if l.split()[1:2] and l.split()[1].startswith("verif-hook")]
    except Exception:
        pass
    checks = []
    for p in props:
        pid = p["id"]
        if pid not in CHECKS:
            continue
        cat, text, note, tech, ref = CHECKS[pid]
        checks.append({
            "property_id": pid,
            "quick_cmd": "./check %s quick" % pid,
            "thorough_cmd": "./check %s thorough" % pid,
            "evidence_file": "/verif/evidence/%s.json" % pid,
            "replay_cmd_template": "./check %s --replay {path}" % pid,
            "engine": "tlc",
            "level_claimed": {"category": cat, "text": text + ADDENDA.get(pid, ""), "design_ref": "DESIGN.md section " + ref},
            "level_note": note,
            "technique": tech,
        })
    man = {
        "version": 1,
        "setup_cmd": "./setup.sh",
        "hooks": {"guard": "HOLPY_VERIF", "enable": "HOLPY_VERIF=1 in the environment of the driver subprocesses (set by harness/core.py run_driver)",
                  "baseline_off_cmd": "/verif/tools/baseline.py", "source_commits": commits, "add_only": True},
        "engines": [{"name": "tlc", "path": "/verif/check", "serves_properties": [c["property_id"] for c in checks],
                     "kind_free_text": "explicit TLA+ specifications (spec/*.tla) checked with TLC; conformance by replaying TLC-generated "
                                       "vectors into holpy and validating recorded traces of the real code against trace specifications"},
                    {"name": "tlc-extras", "path": "/verif/check", "serves_properties": ["C07", "C08", "C11", "C12", "C13", "C19", "C20"],
                     "kind_free_text": "extra specification modules beyond the listed properties (statements: extras/X0n.md; `./check X01|X02|X03|X05|X06|X07 "
                                       "quick|thorough`): X01 theory/context discipline, X02 ProofTerm.export and ItemID arithmetic, X03 types and polynomials, "
                                       "X05 the IDE's HTTP API, X06 the parameterised-protocol verifier, X07 computation-file bookkeeping of the integration "
                                       "calculator; same S/T + conformance construction; not MANIFEST checks (DESIGN.md section 13.1)"}],
        "checks": checks,
        "notes": "One entry point: ./check <ID> quick|thorough|--replay <file>. Verdicts are computed only by TLC on the TLA+ specifications; "
                 "Python generates inputs, runs holpy and projects objects to JSON. known_findings.txt lists fixed and open findings.",
        "not_applicable": [{"property_id": p["id"], "reason": na.get(p["id"], "check not built yet in this session (work in progress; see DESIGN.md section 12 for the construction order)")}
                           for p in props if p["id"] not in CHECKS],
    }
    json.dump(man, open(os.path.join(VERIF, "MANIFEST.json"), "w"), indent=1)
    try:
        import jsonschema
        jsonschema.validate(man, json.load(open("/root/.vp/MANIFEST.schema.json")))
        print("MANIFEST.json valid; claimed:", [c["property_id"] for c in checks])
    except ImportError:
        print("jsonschema not available; MANIFEST.json written")


if __name__ == "__main__":
    main()
