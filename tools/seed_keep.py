#!/venv/bin/python
"""Keep a confirmed seeded change:  tools/seed_keep.py <source dir> <property id> [<name>]
Copies patch.diff and demo.py (plus the author's notes) to /verif/seeded/<property>-<name>/ and writes meta.json from the
evaluation record (eval.json written by tools/seed_eval.py)."""
import json
import os
import shutil
import sys

src = os.path.abspath(sys.argv[1])
pid = sys.argv[2]
name = sys.argv[3] if len(sys.argv) > 3 else os.path.basename(src.rstrip("/"))
ev = json.load(open(os.path.join(src, "eval.json")))
assert ev.get("applies") and ev.get("demo_clean_rc") == 0 and ev.get("demo_changed_rc") not in (0, None), "not a confirmed change: %s" % ev
assert ev.get("baseline_pass") == 600, "baseline not intact: %s" % ev.get("baseline_pass")
dst = os.path.join("/verif/seeded", "%s-%s" % (pid, name))
os.makedirs(dst, exist_ok=True)
for f in ("patch.diff", "demo.py", "notes.txt"):
    if os.path.exists(os.path.join(src, f)):
        shutil.copy(os.path.join(src, f), dst)
notes = open(os.path.join(src, "notes.txt")).read() if os.path.exists(os.path.join(src, "notes.txt")) else ""
meta = {
    "property": pid,
    "name": name,
    "breaks": "see notes.txt (written by the sub-agent that produced the change, which saw only the property text)",
    "needs_to_manifest": next((ln.strip() for ln in notes.splitlines() if "need" in ln.lower()), ""),
    "confirmed_by_lead": {
        "repo_head": ev.get("head"),
        "patch_applies": ev.get("applies"),
        "demo_exit_without_change": ev.get("demo_clean_rc"),
        "demo_exit_with_change": ev.get("demo_changed_rc"),
        "baseline_stable_pass_with_change": ev.get("baseline_pass"),
        "how": "tools/seed_eval.py: scratch worktree of /repo HEAD, patch applied, repository baseline command, demo.py with and without the "
               "change, then `VERIF_REPO=<worktree> ./check <ID> quick`",
    },
    "checks": {c: {"exit": v["rc"], "violation_lines": v["violations"], "clauses": v["clauses"]} for c, v in ev.get("checks", {}).items()},
    "detected": any(v["rc"] == 1 and v["violations"] > 0 for v in ev.get("checks", {}).values()),
}
# an earlier evaluation (before the check was strengthened) is kept as history
mp = os.path.join(dst, "meta.json")
if os.path.exists(mp):
    old = json.load(open(mp))
    hist = old.get("history", [])
    if old.get("checks") != meta["checks"]:
        hist.append({"repo_head": old.get("confirmed_by_lead", {}).get("repo_head"), "checks": old.get("checks"), "detected": old.get("detected")})
    meta["history"] = hist
json.dump(meta, open(mp, "w"), indent=1)
print(dst, "detected" if meta["detected"] else "NOT DETECTED", meta["checks"])
