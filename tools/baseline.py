#!/venv/bin/python
"""Run the repository's pinned baseline (command from /root/.vp/BASELINE.json) with the hook guard OFF
and compare with the stable-pass list.  Exit 0 iff every stable-pass test still passes."""
import json
import os
import subprocess
import sys
import tempfile
import xml.etree.ElementTree as ET

base = json.load(open("/root/.vp/BASELINE.json"))
want = set(base["stable_pass"])
env = dict(os.environ)
env.pop("HOLPY_VERIF", None)
with tempfile.TemporaryDirectory(dir="/verif/.work" if os.path.isdir("/verif/.work") else None) as d:
    xml = os.path.join(d, "junit.xml")
    cmd = base["cmd"].replace("<file>", xml)
    subprocess.run(cmd, shell=True, env=env, stdout=subprocess.DEVNULL, stderr=subprocess.DEVNULL)
    passed = set()
    for tc in ET.parse(xml).getroot().iter("testcase"):
        if not any(ch.tag in ("failure", "error", "skipped") for ch in tc):
            passed.add("%s::%s" % (tc.get("classname"), tc.get("name")))
missing = sorted(want - passed)
print("baseline: %d of %d stable-pass tests pass; %d passing in total" % (len(want & passed), len(want), len(passed)))
for m in missing[:40]:
    print("  NOT PASSING:", m)
sys.exit(1 if missing else 0)
