#!/venv/bin/python
"""Evaluate one seeded change:  tools/seed_eval.py <dir with patch.diff, demo.py> <check id> [<check id> ...]
In a scratch worktree of /repo HEAD (removed afterwards): apply the patch, run the repository baseline (must still pass),
run the demonstration with and without the change, run the named /verif checks with VERIF_REPO pointing at the worktree.
Prints a JSON summary (and writes it to <dir>/eval.json)."""
import json
import os
import re
import shutil
import subprocess
import sys
import tempfile
import time
import xml.etree.ElementTree as ET

d = os.path.abspath(sys.argv[1])
checks = sys.argv[2:]
name = os.path.basename(d.rstrip("/"))
wt = "/tmp/seedwt_%s_%d" % (re.sub(r"\W", "_", name), os.getpid())
res = {"dir": d, "checks": {}, "base": os.environ.get("SEED_BASE", "HEAD"), "head": subprocess.run(["git", "-C", "/repo", "log", "-1", "--format=%h"], capture_output=True, text=True).stdout.strip()}


def sh(cmd, **kw):
    return subprocess.run(cmd, shell=True, capture_output=True, text=True, **kw)


def demo(root):
    if not os.path.exists(os.path.join(d, "demo.py")):      # a behaviour-preserving change has no demonstration
        return None, "no demo.py"
    env = dict(os.environ, PYTHONPATH=root, HOLPY_ROOT=root, PYTHONHASHSEED="0")
    p = subprocess.run(["/venv/bin/python", os.path.join(d, "demo.py")], cwd=root, env=env, capture_output=True, text=True, timeout=1800)
    return p.returncode, (p.stdout + p.stderr)[-400:]


try:
    # SEED_BASE=<commit>: evaluate on the commit the change was written against (when it no longer applies to HEAD)
    r = sh("git -C /repo worktree add -q --detach %s %s" % (wt, os.environ.get("SEED_BASE", "HEAD")))
    if r.returncode:
        raise SystemExit("worktree: " + r.stderr)
    rc0, out0 = demo(wt)
    res["demo_clean_rc"] = rc0
    r = sh("git -C %s apply %s/patch.diff" % (wt, d))
    if r.returncode:
        r = sh("git -C %s apply -3 %s/patch.diff" % (wt, d))
    res["applies"] = r.returncode == 0
    if not res["applies"]:
        res["apply_err"] = r.stderr[-300:]
    else:
        rc1, out1 = demo(wt)
        res["demo_changed_rc"], res["demo_changed_out"] = rc1, out1
        base = json.load(open("/root/.vp/BASELINE.json"))
        xml = os.path.join(wt, "verif_junit.xml")
        cmd = base["cmd"].replace("<file>", xml).replace("cd /repo", "cd " + wt)
        env = dict(os.environ, PYTHONPATH=wt)
        env.pop("HOLPY_VERIF", None)
        subprocess.run(cmd, shell=True, env=env, stdout=subprocess.DEVNULL, stderr=subprocess.DEVNULL)
        passed = set()
        for tc in ET.parse(xml).getroot().iter("testcase"):
            if not any(ch.tag in ("failure", "error", "skipped") for ch in tc):
                passed.add("%s::%s" % (tc.get("classname"), tc.get("name")))
        want = set(base["stable_pass"])
        res["baseline_pass"] = len(want & passed)
        res["baseline_missing"] = sorted(want - passed)[:5]
        os.remove(xml)
        for c in checks:
            t0 = time.time()
            env = dict(os.environ, VERIF_REPO=wt)
            p = subprocess.run(["./check", c, "quick"], cwd="/verif", env=env, capture_output=True, text=True, timeout=7200)
            viol = [ln for ln in p.stdout.splitlines() if ln.startswith("VIOLATION")]
            clauses = sorted({m.group(1) for ln in viol for m in [re.search(r"# clause (\w+)", ln)] if m})
            res["checks"][c] = {"rc": p.returncode, "violations": len(viol), "clauses": clauses, "first": viol[:2],
                                "tail": p.stdout.splitlines()[-1:] , "wall": round(time.time() - t0)}
            if p.returncode not in (0, 1):
                res["checks"][c]["err"] = (p.stdout + p.stderr)[-1500:]
finally:
    sh("git -C /repo worktree remove --force %s" % wt)
    shutil.rmtree(wt, ignore_errors=True)
json.dump(res, open(os.path.join(d, "eval.json"), "w"), indent=1)
print(json.dumps(res, indent=1))
