#!/venv/bin/python
"""Validate candidate repair patches in a scratch worktree of /repo HEAD:  tools/validate_patch.py <name> <patch.diff>...
Runs the repository baseline (stable-pass list of /root/.vp/BASELINE.json, hook guard off) and the library replay totals
(server.monitor) with the patches applied; prints both; removes the worktree.  Nothing in /repo is touched."""
import json
import os
import subprocess
import sys
import xml.etree.ElementTree as ET

name, patches = sys.argv[1], sys.argv[2:]
wt = "/tmp/vpatch_%s_%d" % (name, os.getpid())
sh = lambda c, **kw: subprocess.run(c, shell=True, capture_output=True, text=True, **kw)
r = sh("git -C /repo worktree add --detach %s HEAD" % wt)
assert r.returncode == 0, r.stderr
try:
    for p in patches:
        r = sh("git -C %s apply %s" % (wt, os.path.abspath(p)))
        assert r.returncode == 0, "patch does not apply: %s %s" % (p, r.stderr)
    base = json.load(open("/root/.vp/BASELINE.json"))
    env = dict(os.environ)
    env.pop("HOLPY_VERIF", None)
    xml = "/tmp/vpatch_%s_junit.xml" % name
    sh(base["cmd"].replace("cd /repo", "cd " + wt).replace("<file>", xml), env=env)
    passed = set()
    for tc in ET.parse(xml).getroot().iter("testcase"):
        if not any(ch.tag in ("failure", "error", "skipped") for ch in tc):
            passed.add("%s::%s" % (tc.get("classname"), tc.get("name")))
    want = set(base["stable_pass"])
    print("baseline: %d of %d stable-pass tests pass; missing: %s" % (len(want & passed), len(want), sorted(want - passed)[:10]))
    m = sh("cd %s && /venv/bin/python -m server.monitor 2>&1 | grep -E '^ *Total'" % wt, env=env)
    print("monitor:", m.stdout.strip(), "   (expected  2039 | 81 | 27 | 1587 | 29 | 0 | 278 | 0 | 0)")
    os.remove(xml)
finally:
    sh("git -C /repo worktree remove --force %s" % wt)
    sh("git -C /repo worktree prune")
