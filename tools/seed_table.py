#!/venv/bin/python
"""Regenerates the table of DESIGN.md D.4 (between the markers <!-- seeded-table-begin/end -->) from seeded/*/meta.json."""
import glob
import json
import os
import re

rows = []
for mp in sorted(glob.glob("/verif/seeded/*/meta.json")):
    m = json.load(open(mp))
    d = os.path.dirname(mp)
    files = sorted(set(re.findall(r"^\+\+\+ b/(\S+)", open(os.path.join(d, "patch.diff")).read(), re.M)))
    first = m.get("history", [])
    caught = "; ".join("%s: %s" % (c, ", ".join(v["clauses"]) or "-") for c, v in sorted(m["checks"].items()) if v["exit"] == 1) or "**not detected**"
    hist = ""
    if first and not first[0].get("detected") and m["detected"]:
        hist = "missed by the first version of the check; detected after it was strengthened"
    if m.get("note"):
        hist = (hist + "; " if hist else "") + m["note"]
    rows.append("| %s | %s | %s | %s | %s |" % (m["property"], m["name"], ", ".join(files), caught, hist))
table = "| property | seeded change (`seeded/<property>-<name>/`) | file(s) changed | caught by (`./check <ID> quick`: clauses) | remark |\n|---|---|---|---|---|\n" + "\n".join(rows)
p = "/verif/DESIGN.md"
s = open(p).read()
b, e = "<!-- seeded-table-begin -->", "<!-- seeded-table-end -->"
assert b in s and e in s
s = s[:s.index(b) + len(b)] + "\n" + table + "\n" + s[s.index(e):]
open(p, "w").write(s)
n = len(rows)
det = sum(1 for r in rows if "**not detected**" not in r)
print("seeded changes: %d, detected: %d" % (n, det))
